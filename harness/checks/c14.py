"""C14 — reads fail closed: damaged or missing files raise, never yield partial rows.

Theorems: DSV/Props/C14.lean over the read decision model DSV/Model/Read.lean.
Correspondence: for every reachable file × damage class × read API the observed outcome class is compared with `rd.outcome`.
Oracle: every file reachable from the current snapshot (metadata file, manifest list, manifests, data files) × damage class
{deleted, truncated at several boundaries, replaced by garbage, emptied, one byte flipped per region, swapped with a sibling of
the same kind, transient error on each read call} × every read API and option: the result must be an exception, or exactly
the undamaged answer when the damage is outside what the read touches or leaves the file parseable with identical content.
"""
import io
import os
import shutil

from .. import driver, reader, tablekit
from ..report import Report
from ..util import scratch_dir

ASSUMPTIONS = [
    "'unparseable' is judged by an independent parse (json / fastavro / pyarrow) of the damaged bytes: a damage after which the file "
    "still parses is outside the statement unless it is a data file read with checksum verification on",
    "SHA-256 is collision-free on the explored inputs",
]

def _with_env(value, fn):
    """checksum verification requested through the environment, in one of the spellings the library documents / tolerates"""
    old = os.environ.get("DATASHARD_VERIFY_CHECKSUMS")
    os.environ["DATASHARD_VERIFY_CHECKSUMS"] = value
    try:
        return fn()
    finally:
        if old is None:
            os.environ.pop("DATASHARD_VERIFY_CHECKSUMS", None)
        else:
            os.environ["DATASHARD_VERIFY_CHECKSUMS"] = old


APIS = {
    "scan": lambda t: sorted(reader.rowkey(r) for r in t.scan()),
    "scan_parallel": lambda t: sorted(reader.rowkey(r) for r in t.scan(parallel=2)),
    "scan_nochecksum": lambda t: sorted(reader.rowkey(r) for r in t.scan(verify_checksums=False)),
    "scan_filter_cols": lambda t: sorted(reader.rowkey(r) for r in t.scan(columns=["id"], filter={"id": (">=", 0)})),
    "scan_batches": lambda t: sorted(reader.rowkey(r) for b in t.scan_batches(batch_size=1) for r in b),
    "iter_records": lambda t: sorted(reader.rowkey(r) for r in t.iter_records()),
    "scan_cols": lambda t: sorted(reader.rowkey(r) for r in t.scan(columns=["id"])),
    "scan_cols_parallel": lambda t: sorted(reader.rowkey(r) for r in t.scan(columns=["id", "name"], parallel=2)),
    "scan_env_on": lambda t: _with_env("on", lambda: sorted(reader.rowkey(r) for r in t.scan())),
    "scan_env_padded": lambda t: _with_env(" true\r\n", lambda: sorted(reader.rowkey(r) for r in t.scan())),
    "scan_env_yes_upper": lambda t: _with_env("YES", lambda: sorted(reader.rowkey(r) for r in t.iter_records())),
    "row_count": lambda t: t.row_count(),
    # snapshot-inspection getters: they answer from the metadata file alone
    "current_snapshot": lambda t: getattr(t.current_snapshot(), "snapshot_id", None),
    "snapshots": lambda t: sorted(s_["snapshot_id"] if isinstance(s_, dict) else s_.snapshot_id for s_ in t.snapshots()),
    "time_travel_latest": lambda t: getattr(t.time_travel(), "snapshot_id", None),
}
# which file kinds a read API touches
TOUCHES = {a: {"meta", "mlist", "manifest", "data"} for a in APIS}
TOUCHES["row_count"] = {"meta", "mlist", "manifest"}
for _a in ("current_snapshot", "snapshots", "time_travel_latest"):
    TOUCHES[_a] = {"meta"}
CHECKSUM_ON = {"scan", "scan_parallel", "scan_filter_cols", "scan_batches", "iter_records", "scan_cols", "scan_cols_parallel", "scan_env_on",
               "scan_env_padded", "scan_env_yes_upper"}


def _build(path):
    t = tablekit.create(path)
    t.append_records(tablekit.rows(3, start=0, tag="a"))
    with t.new_transaction() as tx:        # one manifest holding three files
        tx.append_data(tablekit.rows(2, start=10, tag="b"))
        tx.append_data(tablekit.rows(2, start=15, tag="b2"))
        tx.append_data(tablekit.rows(1, start=18, tag="b3"))
        tx.commit()
    t.append_records(tablekit.rows(2, start=20, tag="c"))
    # a PRE-BUILT file registered WITHOUT a checksum (file-level API): it cannot be verified itself — and must not weaken the
    # verification of the files that do carry one
    import pyarrow as pa
    import pyarrow.parquet as pq
    from datashard.data_structures import DataFile, FileFormat
    os.makedirs(os.path.join(path, "data", "nochk"), exist_ok=True)
    pre = os.path.join(path, "data", "nochk", "pre.parquet")
    rows_ = tablekit.rows(2, start=30, tag="pre")
    pq.write_table(pa.Table.from_pylist(rows_, schema=t.file_manager.data_file_manager.create_arrow_schema(tablekit.schema())), pre)
    t.append_data([DataFile(file_path="/data/nochk/pre.parquet", file_format=FileFormat.PARQUET, partition_values={}, record_count=2,
                            file_size_in_bytes=os.path.getsize(pre), checksum=None)])
    paths = tablekit.data_paths(t)
    with t.new_transaction() as tx:        # a whole manifest dropped AND a partial delete: the rewritten manifest carries the survivors
        tx.delete_files(["/" + paths[0], "/" + paths[1]])
        tx.commit()
    return t


def _kind(rel):
    if rel.startswith("metadata/manifests/manifest_list_"):
        return "mlist"
    if rel.startswith("metadata/manifests/"):
        return "manifest"
    if rel.startswith("data/"):
        return "data"
    return "meta"


def _parses(kind, data):
    """independent parse of damaged bytes; returns a canonical content token or None if unparseable"""
    try:
        if kind == "meta":
            import json
            d_ = json.loads(data.decode("utf-8"))
            if not isinstance(d_, dict) or "snapshots" not in d_ or "current_snapshot_id" not in d_ or "table_uuid" not in d_:
                return None         # JSON, but not a table-metadata document
            return ("meta", json.dumps(d_, sort_keys=True))
        if kind in ("mlist", "manifest"):
            import fastavro
            return (kind, repr(list(fastavro.reader(io.BytesIO(data)))))
        import pyarrow.parquet as pq
        return ("data", repr(pq.read_table(io.BytesIO(data)).to_pylist()))
    except Exception:       # noqa: BLE001
        return None


def _damages(data, sibling):
    n = len(data)
    out = [("deleted", None), ("emptied", b""), ("garbage", b"\x00\xffthis is not a file of this kind{{{" * 3),
           ("truncated-1", data[:1]), ("truncated-quarter", data[: max(2, n // 4)]), ("truncated-half", data[: n // 2]),
           ("truncated-minus1", data[:-1]), ("truncated-minus-footer", data[: max(1, n - 12)]),
           ("truncated-minus24", data[: max(1, n - 24)]), ("truncated-minus60", data[: max(1, n - 60)]),
           # bytes that are valid JSON and not a file of this kind
           ("json-empty-object", b"{}"), ("json-empty-list", b"[]"), ("json-null", b"null")]
    for name, pos in (("flip-head", min(3, n - 1)), ("flip-middle", n // 2), ("flip-tail", n - 2)):
        b = bytearray(data)
        b[pos] ^= 0xFF
        out.append((name, bytes(b)))
    if sibling is not None:
        out.append(("swapped-with-sibling", sibling))
    return out


class Transient(OSError):
    pass


def _with_transient(t, rel, fn):
    """fail the first read / open / exists of `rel` with a transient error"""
    st = t.storage
    fired = {"n": 0}
    saved = {}
    for m in ("read_file", "open_file", "exists", "read_json"):
        orig = getattr(st, m)
        saved[m] = orig

        def w(p, *a, _o=orig, _m=m, **k):
            if p.lstrip("/") == rel and fired["n"] == 0 and _m != "read_json":
                fired["n"] += 1
                raise Transient(f"transient {_m}({p})")
            return _o(p, *a, **k)
        setattr(st, m, w)
    # local parquet reads go through open(); cover them by patching the data file manager's source opener
    dfm = t.file_manager.data_file_manager
    oo = dfm.open_parquet_source

    def ops(p, _o=oo):
        if p.lstrip("/") == rel and fired["n"] == 0:
            fired["n"] += 1
            raise Transient(f"transient open_parquet_source({p})")
        return _o(p)
    dfm.open_parquet_source = ops
    try:
        return fn(t), fired["n"]
    finally:
        for m in saved:
            try:
                delattr(st, m)
            except AttributeError:
                pass
        dfm.open_parquet_source = oo


def run(ctx, model_ok):
    rep = Report()
    rep.rule = ("a table with 4 commits (append, a 3-file transaction, append, then a delete dropping one whole manifest and PART of the 3-file one, so a rewritten manifest carries survivors): every file reachable from the current snapshot "
                "(current metadata file, manifest list, each manifest, each data file) × 12 damage classes (delete, empty, garbage, 5 truncations, "
                "3 byte flips, swap with a sibling of the same kind) + a transient error on the first touch × 7 read APIs / options. "
                "the data-file damages again through a handle that had already read the table once (also with size and mtime preserved); the current metadata file present but unparseable while the pointer is lost or garbage. non-trivial = the damaged file is touched by the API and the damage makes it unparseable (or the checksum applies).")
    base = scratch_dir("c14-")
    model_rows = []
    try:
        path = os.path.join(base, "t")
        _build(path)
        snap = os.path.join(base, "snap")
        shutil.copytree(path, snap, copy_function=shutil.copy2)
        store = reader.DirStore(path)
        cur_meta = "metadata/" + reader.pointer(store)[1]
        v = reader.view(path)
        cur = [s for s in v["snaps"] if s["id"] == v["cur"]][0]
        targets = [cur_meta, cur["mlist"]] + list(cur["manifests"]) + list(cur["files"])
        clean = {a: f(tablekit.load(path)) for a, f in APIS.items()}
        by_kind = {}
        for rel in targets:
            by_kind.setdefault(_kind(rel), []).append(rel)
        for rel in targets:
            kind = _kind(rel)
            data = store.get(rel)
            sib = next((store.get(o) for o in by_kind[kind] if o != rel), None)
            if kind == "meta":
                older = sorted(n for vv, ns in reader.metadata_files(store).items() for n in ns if "metadata/" + n != cur_meta)
                sib = store.get("metadata/" + older[-1]) if older else None
            orig_token = _parses(kind, data)
            for dname, dbytes in _damages(data, sib) + [("transient", "T")]:
                shutil.rmtree(path)
                shutil.copytree(snap, path, copy_function=shutil.copy2)
                full = os.path.join(path, rel)
                if dname == "deleted":
                    os.remove(full)
                    token = None
                elif dname == "transient":
                    token = None
                else:
                    with open(full, "wb") as f:
                        f.write(dbytes)
                    token = _parses(kind, dbytes)
                unparseable = token is None
                same_content = token is not None and token == orig_token
                bytes_same = isinstance(dbytes, bytes) and dbytes == data
                for api, fn in APIS.items():
                    try:
                        t = tablekit.load(path)
                        if dname == "transient":
                            got, fired = _with_transient(t, rel, fn)
                            touched_now = fired > 0
                        else:
                            got, touched_now = fn(t), True
                        outcome = "ok"
                    except Exception as e:      # noqa: BLE001
                        got, outcome, touched_now = None, "raise:" + type(e).__name__, True
                    rep.evaluations += 1
                    rep.distribution[f"{kind}/{dname}:{outcome.split(':')[0]}"] += 1
                    touches = kind in TOUCHES[api]
                    case = {"kind": "damage", "file_kind": kind, "damage": dname, "api": api, "file": rel}
                    has_checksum = "data/nochk/" not in rel
                    must_raise = touches and (unparseable or (kind == "data" and has_checksum and api in CHECKSUM_ON and not bytes_same and dname != "transient"))
                    if dname == "transient":
                        must_raise = touches and touched_now
                    if must_raise:
                        rep.nontrivial(["c14", kind, dname, api])
                    if outcome == "ok":
                        if got == clean[api]:
                            if must_raise and dname != "transient":
                                rep.violate(f"C14:damage-ignored:{kind}:{dname}", f"{api}: {kind} file {dname}, yet the undamaged answer came back", case)
                        else:
                            if kind == "meta" and dname == "deleted":
                                sig = "C14:current-metadata-file-missing-served-older-version"
                            elif not must_raise and not unparseable and not same_content:
                                # a damage that still parses with different content is outside the statement (no checksum on metadata-plane files)
                                rep.distribution["still-parses-different-content"] += 1
                                continue
                            else:
                                sig = f"C14:partial-or-altered-rows:{kind}:{dname}"
                            n_got = got if isinstance(got, int) or got is None else len(got)
                            n_clean = clean[api] if isinstance(clean[api], int) or clean[api] is None else len(clean[api])
                            if api in ("current_snapshot", "snapshots", "time_travel_latest"):
                                sig = f"C14:broken-table-reported-as-empty-or-other:{kind}:{dname}" if sig.startswith("C14:partial") else sig
                            rep.violate(sig, f"{api}: {kind} file {os.path.basename(rel)[:30]} {dname}: returned {n_got!r} (rows) instead of raising (undamaged: {n_clean!r})", case)
                    if model_ok:
                        status = "ok" if ((same_content and dname != "transient") and (kind != "data" or bytes_same)) else ("missing" if dname == "deleted" else ("transient" if dname == "transient" else
                                 ("unparseable" if unparseable else "altered")))
                        chk = "1" if api in CHECKSUM_ON and has_checksum else "0"
                        if status != "altered" or (kind == "data" and chk == "1"):     # unverified altered bytes: outside the property
                            model_rows.append((f"rd.outcome {kind} {status} {'1' if touches else '0'} {chk}",
                                               "raise" if outcome.startswith("raise") else ("same" if got == clean[api] else "different"), case))
        # ---- the current metadata file damaged (present but unparseable) WHILE the pointer is lost or unreadable: the recovery scan must
        # not quietly elect an older version that parses (a deleted current file is the listed finding; a present, torn one is not)
        data = store.get(cur_meta)
        for dname, dbytes in _damages(data, None):
            if dname == "deleted" or not isinstance(dbytes, bytes) or _parses("meta", dbytes) is not None:
                continue
            for hint_state in ("pointer-deleted", "pointer-garbage"):
                shutil.rmtree(path)
                shutil.copytree(snap, path, copy_function=shutil.copy2)
                with open(os.path.join(path, cur_meta), "wb") as f:
                    f.write(dbytes)
                hp = os.path.join(path, reader.HINT)
                if hint_state == "pointer-deleted":
                    os.remove(hp)
                else:
                    with open(hp, "wb") as f:
                        f.write(b"\xff\xfenot a pointer")
                for api, fn in APIS.items():
                    rep.evaluations += 1
                    rep.nontrivial(["c14-meta-no-pointer", dname, hint_state, api])
                    case = {"kind": "damage-with-pointer-lost", "file_kind": "meta", "damage": dname, "pointer": hint_state, "api": api, "file": cur_meta}
                    try:
                        got = fn(tablekit.load(path))
                    except Exception:       # noqa: BLE001
                        continue
                    n_got = got if isinstance(got, int) or got is None else len(got)
                    rep.violate(f"C14:partial-or-altered-rows:meta:{dname}", f"{api}: current metadata file {dname} and {hint_state}: returned {n_got!r} "
                                f"instead of raising (an older version was served)", case)
        # ---- a WARM handle: it has already read (and verified) every file once; the damage happens afterwards
        for rel in [r_ for r_ in targets if _kind(r_) == "data" and "data/nochk/" not in r_]:
            data = store.get(rel)
            sib = next((store.get(o) for o in by_kind["data"] if o != rel), None)
            for dname, dbytes in _damages(data, sib):
                if dname not in ("deleted", "flip-middle", "flip-tail", "swapped-with-sibling", "truncated-half", "garbage"):
                    continue
                same_size = isinstance(dbytes, bytes) and len(dbytes) == len(data)
                for api, keep_times in [(a_, k_) for a_ in ("scan", "scan_batches", "iter_records", "scan_parallel")
                                        for k_ in ((False, True) if same_size else (False,))]:
                    shutil.rmtree(path)
                    shutil.copytree(snap, path, copy_function=shutil.copy2)
                    hw = tablekit.load(path)
                    APIS[api](hw)                      # warm
                    full = os.path.join(path, rel)
                    st0 = os.stat(full)
                    if dname == "deleted":
                        os.remove(full)
                    else:
                        with open(full, "wb") as f:
                            f.write(dbytes)
                        if keep_times:
                            # same size, same mtime: nothing but the content tells the two apart (bit rot, a restore tool that
                            # preserves times, a sibling of equal size copied with cp -p)
                            os.utime(full, ns=(st0.st_atime_ns, st0.st_mtime_ns))
                    if isinstance(dbytes, bytes) and dbytes == data:
                        continue
                    rep.evaluations += 1
                    rep.nontrivial(["c14-warm", dname, api, rel, keep_times])
                    case = {"kind": "damage-after-first-read", "file_kind": "data", "damage": dname, "api": api, "file": rel,
                            "size_and_mtime_preserved": keep_times}
                    try:
                        got = APIS[api](hw)
                    except Exception:       # noqa: BLE001
                        continue
                    if got == clean[api]:
                        rep.violate("C14:damage-ignored:data:" + dname, f"{api} through a handle that had read the table before: data file {dname} afterwards, "
                                    f"yet the undamaged answer came back", case)
                    else:
                        rep.violate("C14:partial-or-altered-rows:data:" + dname, f"{api} through a handle that had read the table before: data file {dname} "
                                    f"afterwards: returned {len(got)} rows instead of raising", case)
        # ---- the bytes of a checksummed data file CHANGE (to a sibling's: they still parse) between two reads of one scan: whichever
        # read is hashed must be the one that is parsed — the answer is the undamaged rows or an error, never the altered rows
        for rel in [r_ for r_ in targets if _kind(r_) == "data" and "data/nochk/" not in r_][:2]:
            data = store.get(rel)
            sib = next((store.get(o) for o in by_kind["data"] if o != rel and "data/nochk/" not in o), None)
            if sib is None:
                continue
            for api in ("scan", "scan_parallel", "scan_filter_cols", "scan_batches", "iter_records"):
                for k in (1, 2, 3):
                    shutil.rmtree(path)
                    shutil.copytree(snap, path, copy_function=shutil.copy2)
                    hw = tablekit.load(path)
                    st_, dfm_ = hw.storage, hw.file_manager.data_file_manager
                    n_ = {"reads": 0}

                    def content(_n=n_, _k=k):
                        _n["reads"] += 1
                        return data if _n["reads"] < _k else sib
                    o_rf, o_of, o_ops = st_.read_file, st_.open_file, dfm_.open_parquet_source
                    st_.read_file = lambda p_, *a_, _o=o_rf, **k_: content() if str(p_).lstrip("/") == rel else _o(p_, *a_, **k_)
                    st_.open_file = lambda p_, *a_, _o=o_of, **k_: io.BytesIO(content()) if str(p_).lstrip("/") == rel else _o(p_, *a_, **k_)
                    dfm_.open_parquet_source = lambda p_, _o=o_ops: io.BytesIO(content()) if str(p_).lstrip("/") == rel else _o(p_)
                    rep.evaluations += 1
                    case = {"kind": "content-changes-between-reads", "api": api, "file": rel, "changed_from_read": k}
                    try:
                        got = APIS[api](hw)
                    except Exception:       # noqa: BLE001
                        got = None
                    finally:
                        for o_, nm_ in ((st_, "read_file"), (st_, "open_file"), (dfm_, "open_parquet_source")):
                            try:
                                delattr(o_, nm_)
                            except AttributeError:
                                pass
                    if n_["reads"] >= k:
                        rep.nontrivial(["c14-changing", api, rel, k])
                    if got is not None and got != clean[api]:
                        rep.violate("C14:partial-or-altered-rows:data:changed-between-reads", f"{api}: the bytes of {os.path.basename(rel)[:24]} changed (to a sibling's) from "
                                    f"read #{k} of the scan on; the scan returned {len(got)} rows that are not the undamaged answer ({len(clean[api])} rows) and did not raise", case)
        if model_ok and model_rows:
            replies = driver.ask([r for r, _i, _c in model_rows])
            for (rq, impl, case), m in zip(model_rows, replies):
                rep.corr_cases += 1
                if m != impl and not (m == "same-or-raise" and impl in ("same", "raise")):
                    rep.diverge("rd.outcome (read decision tree)", {"request": rq, **case}, m, impl)
            rep.sample({"outcome_case": model_rows[3][0], "model": replies[3], "impl": model_rows[3][1]})
        rep.exhaustive = True
    finally:
        shutil.rmtree(base, ignore_errors=True)
    return rep
