"""C19 — locks exclude, time out, and never report a lock that is not held.

Theorems: DSV/Props/C19.lean (flock_mutex, death_releases, timeout_bound, no_success_while_held, unlink_breaks_mutex;
takeover_only_after_lease, superseded_observes_loss, held_answer_sound, owned_object_persists_partial/_refuted).
Correspondence: real FileLock instances on the REAL kernel (several instances in one process = several open file
descriptions; a death = the kernel closing the descriptor) and the real S3LockProvider on the in-memory S3, both run as
threads under the deterministic scheduler with a virtual clock, against `lock.frun` / `lock.srun`.
Oracle: overlap of critical sections, time to TimeoutError, is_held() of a superseded holder; real multi-process stress.
"""
import datetime as dt
import os
import shutil
import subprocess
import sys
import threading
import types

from .. import driver, fakes3, sched
from ..report import Report
from ..util import scratch_dir

ASSUMPTIONS = [
    "kernel flock: exclusive per inode among open file descriptions, released on close / process death (sampled on the real kernel every run)",
    "S3 conditional PUT (If-None-Match / If-Match) is atomic; ETag changes on every write (harness/fakes3.py)",
    "the S3 lock's heartbeat thread is replaced by a schedulable renew event calling the real _renew_once",
]


class VTime:
    def __init__(self):
        self.t = 1000.0

    def monotonic(self):
        return self.t

    def time(self):
        return self.t


# ------------------------------------------------------------------ local FileLock on the real kernel

def _flock_case(ctx, rep, rng, base, model_ok, case_id):
    import datashard.file_lock as flm
    from datashard.file_lock import FileLock
    vt = VTime()
    path = os.path.join(base, f"l{case_id}", "x.lock")
    n = rng.choice([2, 2, 3])
    locks = {a: FileLock(path, timeout=5.0) for a in range(1, n + 1)}
    scripts = {}
    for a in locks:
        sc = []
        for _ in range(rng.randint(1, 3)):
            sc.append("acquire")
            sc.append(rng.choice(["release", "release", "die", "hold"]))
        scripts[a] = sc
    steps = []          # model steps in global order
    observations = []   # after each step: {a: (locked, timedOut)}
    status = {a: {"timedOut": False, "waiting": False} for a in locks}

    class Snap(dict):
        def replace(self, old, new):        # used to pre-announce a success inside the attempt wrapper
            a_ = int(old.split("=")[0])
            d_ = Snap(self)
            d_[a_] = "L" + d_[a_][1:]
            return d_

    def snapshot():
        return Snap({a: f"{'L' if locks[a].is_held() else '-'}{'T' if status[a]['timedOut'] else '-'}{'W' if status[a]['waiting'] else '-'}" for a in locks})

    def chooser(s, ready):
        if rng.random() < 0.2:
            d = rng.choice([1, 3, 6])
            vt.t += d
            steps.append(f"tick:{d}")
            observations.append(snapshot())
        return rng.choice(sorted(ready))
    S = sched.Sched(chooser, watchdog_s=30)
    saved_time = flm.time
    flm.time = types.SimpleNamespace(monotonic=vt.monotonic, time=vt.time, sleep=lambda s_: None)
    in_cs = []
    overlaps = []

    def body(a):
        lk = locks[a]
        orig_try = lk._try_acquire_once

        def try_once():
            S.gate("attempt")
            r = orig_try()
            return r
        lk._try_acquire_once = try_once
        for cmd in scripts[a]:
            if cmd == "acquire":
                if lk.is_held():
                    continue
                steps.append(f"{a}:begin:5")
                status[a]["waiting"], status[a]["timedOut"] = True, False
                observations.append(snapshot())
                deadline_seen = []
                # each granted attempt = one model `attempt`
                real_try = lk._try_acquire_once

                def counted():
                    r = real_try()
                    # the deadline check follows inside acquire(); we record after it returns/raises via the wrapper below
                    deadline_seen.append(r)
                    if r:
                        status[a]["waiting"] = False
                        steps.append(f"{a}:attempt")
                        observations.append(snapshot().replace(f"{a}=-", f"{a}=L"))
                    else:
                        will_timeout = vt.t >= dl[0]
                        if will_timeout:
                            status[a]["waiting"], status[a]["timedOut"] = False, True
                        steps.append(f"{a}:attempt")
                        observations.append(snapshot())
                    return r
                dl = [vt.t + lk.timeout]
                lk._try_acquire_once = counted
                try:
                    lk.acquire()
                    if in_cs:
                        overlaps.append((a, list(in_cs)))
                    in_cs.append(a)
                except TimeoutError:
                    if vt.t < dl[0]:
                        rep.violate("C19:timeout-before-deadline", f"TimeoutError at t={vt.t} before the deadline {dl[0]}", {"kind": "flock", "steps": list(steps)})
                finally:
                    lk._try_acquire_once = real_try
            elif cmd == "release":
                S.gate("release")
                if a in in_cs:
                    in_cs.remove(a)
                lk.release()
                steps.append(f"{a}:release")
                observations.append(snapshot())
            elif cmd == "die":
                S.gate("die")
                if a in in_cs:
                    in_cs.remove(a)
                # process death: the kernel closes the descriptor; the instance's memory is gone
                if lk._lock_fd is not None:
                    try:
                        os.close(lk._lock_fd)
                    except OSError:
                        pass
                lk._lock_fd, lk._locked = None, False
                status[a] = {"timedOut": False, "waiting": False}
                steps.append(f"{a}:die")
                observations.append(snapshot())
            elif cmd == "hold":
                pass
    try:
        S.run({a: (lambda a=a: body(a)) for a in locks})
    finally:
        flm.time = saved_time
        for lk in locks.values():
            try:
                lk.release()
            except Exception:       # noqa: BLE001
                pass
    rep.evaluations += 1
    rep.nontrivial(["flock", steps])
    rep.distribution["flock:runs"] += 1
    if overlaps:
        rep.violate("C19:flock-two-holders", f"critical sections overlap: {overlaps[:2]}", {"kind": "flock", "steps": list(steps)})
    if model_ok and steps:
        reply = driver.ask(["lock.frun " + " ".join(steps)])[0].split(";")
        rep.corr_cases += 1
        acting = sorted({int(x.split(":")[0]) for x in steps if not x.startswith("tick")})
        observations = [",".join(f"{a}={o[a]}" for a in acting) for o in observations]
        if reply != observations:
            k = next((i for i, (x, y) in enumerate(zip(reply, observations)) if x != y), min(len(reply), len(observations)))
            rep.diverge("lock.frun (FileLock on the real kernel)", {"steps": steps, "first_difference_at": k}, reply[max(0, k - 1):k + 2], observations[max(0, k - 1):k + 2])
        if case_id == 0:
            rep.sample({"flock_steps": steps, "model": reply})


def _stress(ctx, rep, base):
    """real processes, shared counter without atomic increments: lost increments = two holders"""
    d = os.path.join(base, "stress")
    os.makedirs(d)
    counter = os.path.join(d, "counter")
    open(counter, "w").write("0")
    n_proc, iters = (8, 25) if not ctx.thorough else (8, 150)
    code = (
        "import sys,os\n"
        "from datashard.file_lock import FileLock\n"
        "lk=FileLock(sys.argv[1], timeout=60)\n"
        "for _ in range(int(sys.argv[3])):\n"
        "    lk.acquire()\n"
        "    v=int(open(sys.argv[2]).read()); open(sys.argv[2],'w').write(str(v+1))\n"
        "    lk.release()\n")
    procs = [subprocess.Popen([sys.executable, "-c", code, os.path.join(d, "s.lock"), counter, str(iters)]) for _ in range(n_proc)]
    for p in procs:
        p.wait(timeout=180)
    got = int(open(counter).read())
    rep.evaluations += 1
    rep.distribution["flock:stress-increments"] += got
    if got != n_proc * iters:
        rep.violate("C19:flock-two-holders", f"multi-process stress: {got} increments survived out of {n_proc * iters}", {"kind": "stress"})
    # a holder's death releases the lock; a blocked acquirer times out within its timeout
    holder = subprocess.Popen([sys.executable, "-c",
                               "import sys,time\nfrom datashard.file_lock import FileLock\nl=FileLock(sys.argv[1],timeout=5);l.acquire();print('held',flush=True);time.sleep(60)",
                               os.path.join(d, "h.lock")], stdout=subprocess.PIPE)
    holder.stdout.readline()
    from datashard.file_lock import FileLock
    import time
    me = FileLock(os.path.join(d, "h.lock"), timeout=0.3)
    t0 = time.monotonic()
    try:
        me.acquire()
        rep.violate("C19:flock-two-holders", "acquired while another process holds the lock", {"kind": "stress"})
        me.release()
    except TimeoutError:
        el = time.monotonic() - t0
        if el > 0.3 + 0.25:
            rep.violate("C19:timeout-exceeded", f"TimeoutError after {el:.2f}s with timeout 0.3s", {"kind": "stress"})
    holder.kill()
    holder.wait()
    me2 = FileLock(os.path.join(d, "h.lock"), timeout=2.0)
    try:
        me2.acquire()
        me2.release()
    except TimeoutError:
        rep.violate("C19:death-does-not-release", "lock still held after the holder process was killed", {"kind": "stress"})
    rep.evaluations += 2


def _fork_inherits(ctx, rep, base):
    """a lock object that was used before the process forked: afterwards parent and child contend through their copies of it"""
    from datashard.file_lock import FileLock
    d = os.path.join(base, "fork")
    os.makedirs(d)
    for used_before in (True, False):
        lk = FileLock(os.path.join(d, f"f{int(used_before)}.lock"), timeout=0.5)
        if used_before:
            lk.acquire()
            lk.release()
        r1, w1 = os.pipe()
        r2, w2 = os.pipe()
        pid = os.fork()
        if pid == 0:            # child: wait until the parent holds the lock, then try once without blocking
            try:
                os.read(r1, 1)
                try:
                    got = lk.acquire(blocking=False)
                except BaseException:       # noqa: BLE001
                    got = False
                os.write(w2, b"1" if got else b"0")
            finally:
                os._exit(0)
        lk.acquire()
        os.write(w1, b"x")
        ans = os.read(r2, 1)
        os.waitpid(pid, 0)
        for fd in (r1, w1, r2, w2):
            os.close(fd)
        rep.evaluations += 1
        rep.nontrivial(["fork", used_before])
        if ans == b"1":
            rep.violate("C19:flock-two-holders", f"lock object {'used before' if used_before else 'created before'} fork(): the child acquired it while the "
                        f"parent holds it", {"kind": "fork", "used_before_fork": used_before})
        lk.release()


def _fallback_lock(ctx, rep, base):
    """platforms without flock / msvcrt: the O_EXCL existence lock — exclusion, timeout, and a lock file abandoned by a dead holder
    (older than timeout × the stale factor) is broken, a younger one is not"""
    import time as _time
    import datashard.file_lock as flm
    from datashard.file_lock import FileLock
    saved = (flm.FCNTL_AVAILABLE, flm.MSVCRT_AVAILABLE)
    flm.FCNTL_AVAILABLE = flm.MSVCRT_AVAILABLE = False
    d = os.path.join(base, "fallback")
    os.makedirs(d)
    try:
        a, b = FileLock(os.path.join(d, "x.lock"), timeout=0.2), FileLock(os.path.join(d, "x.lock"), timeout=0.2)
        a.acquire()
        rep.evaluations += 1
        try:
            b.acquire()
            rep.violate("C19:flock-two-holders", "existence lock: second instance acquired while the first holds it", {"kind": "fallback", "case": "exclusion"})
            b.release()
        except TimeoutError:
            pass
        a.release()
        b.acquire()
        b.release()
        for age_factor, must_break in ((50.0, True), (0.5, False)):
            path = os.path.join(d, f"dead{int(age_factor)}.lock")
            open(path, "w").write("99999")          # left behind by a holder that died
            timeout = 0.2
            old = _time.time() - timeout * FileLock._STALE_FACTOR * age_factor
            os.utime(path, (old, old))
            lk = FileLock(path, timeout=timeout)
            rep.evaluations += 1
            rep.nontrivial(["fallback-stale", age_factor])
            got = None
            try:
                lk.acquire()
                got = True
                lk.release()
            except TimeoutError:
                got = False
            case = {"kind": "fallback", "case": "abandoned lock file", "age_over_stale_threshold": age_factor}
            if must_break and not got:
                rep.violate("C19:abandoned-lock-never-broken", f"existence lock: a lock file {age_factor}× older than the stale threshold, left by a dead holder, "
                            f"still blocks (TimeoutError): the table can never be committed to again", case)
            if not must_break and got:
                rep.violate("C19:flock-two-holders", "existence lock: a lock file younger than the stale threshold was broken", case)
    finally:
        flm.FCNTL_AVAILABLE, flm.MSVCRT_AVAILABLE = saved


def _flock_gap(ctx, rep, base):
    """the gap INSIDE one attempt: an acquirer that has opened the lock file but not yet flock()ed it, while others release / acquire.
    Every placement of {holder releases, third party acquires, holder re-acquires} inside that gap; at no point two holders."""
    import fcntl as real_fcntl
    import itertools
    import datashard.file_lock as flm
    from datashard.file_lock import FileLock

    class Shim:
        def __init__(self):
            self.hook = None
            self.LOCK_EX, self.LOCK_NB, self.LOCK_UN, self.LOCK_SH = real_fcntl.LOCK_EX, real_fcntl.LOCK_NB, real_fcntl.LOCK_UN, real_fcntl.LOCK_SH

        def flock(self, fd, op):
            h, self.hook = self.hook, None
            if h is not None and op & real_fcntl.LOCK_EX:
                h()
            return real_fcntl.flock(fd, op)

    shim = Shim()
    saved = flm.fcntl
    flm.fcntl = shim
    try:
        acts = ["A.release", "C.try", "A.try", "C.release"]
        n = 0
        for k in range(0, 4):
            for seq in itertools.permutations(acts, k):
                n += 1
                path = os.path.join(base, f"gap{n}", "m.lock")
                os.makedirs(os.path.dirname(path))
                L = {x: FileLock(path, timeout=1.0) for x in "ABC"}
                L["A"]._try_acquire_once()
                ino0 = os.stat(path).st_ino

                def inside(seq=seq, L=L):
                    for a in seq:
                        who, what = a.split(".")
                        if what == "release":
                            L[who].release()
                        else:
                            if not L[who].is_held():
                                L[who]._try_acquire_once()
                shim.hook = inside
                L["B"]._try_acquire_once()
                shim.hook = None
                holders = [x for x in "ABC" if L[x].is_held()]
                rep.evaluations += 1
                rep.nontrivial(["flock-gap", list(seq)])
                case = {"kind": "flock-gap", "inside_B_open_to_flock": list(seq)}
                if len(holders) > 1:
                    rep.violate("C19:flock-two-holders", f"B between open() and flock() while {list(seq)}: holders {holders}", case)
                try:
                    ino1 = os.stat(path).st_ino
                except OSError:
                    ino1 = None
                if ino1 != ino0:
                    rep.violate("C19:lock-file-identity-changed", f"after {list(seq)} the lock path names another inode / nothing: later acquirers do not "
                                f"exclude the holders of the old one", case)
                for x in "ABC":
                    L[x].release()
        rep.distribution["flock:gap-placements"] += n
    finally:
        flm.fcntl = saved


# ------------------------------------------------------------------ S3 lock

class _VDatetime(dt.datetime):
    clock = None

    @classmethod
    def now(cls, tz=None):
        return dt.datetime.fromtimestamp(cls.clock.t, tz)


def _s3_timeout_bound(ctx, rep, model_ok=False):
    """a contender blocked by a live holder for its whole timeout: TimeoutError within the configured bound (+ one poll interval)"""
    import random as _random
    import datashard.lock_provider as lpm
    from datashard.lock_provider import S3LockProvider
    POLL_MAX = 1.0          # one poll sleep (documented jitter 0.3–0.9 s)
    import time as _time
    tz_saved = os.environ.get("TZ")
    for timeout, seed, tz in [(t_, s_, None) for t_ in (1.0, 5.0, 30.0) for s_ in range(3 if not ctx.thorough else 12)] + \
                             [(5.0, 0, "JST-9"), (5.0, 1, "EST5EDT"), (1.0, 2, "NPT-5:45")]:      # the contender's host is not on UTC
        if True:
            if tz is not None:
                os.environ["TZ"] = tz
                _time.tzset()
            vt = VTime()
            skew = (0.0, 3.0, -3.0)[seed % 3]       # the store's clock vs the clients' clock (LastModified may lie in a client's future)
            fake = fakes3.FakeS3(clock=lambda vt=vt, skew=skew: dt.datetime.fromtimestamp(vt.t + skew, dt.timezone.utc))
            holder = S3LockProvider(fake, "bkt", "tbl/.locks/metadata.lock", timeout=timeout, lease_seconds=600)
            waiter = S3LockProvider(fake, "bkt", "tbl/.locks/metadata.lock", timeout=timeout, lease_seconds=600)
            for p in (holder, waiter):
                p._start_heartbeat = lambda: None
                p._stop_heartbeat_thread = lambda: None
            saved = (lpm.time, dt.datetime, getattr(lpm, "random", None))

            slept = []

            def sleep(s_, vt=vt, slept=slept):
                slept.append(int(round(max(0.0, float(s_)) * 1000)))
                vt.t = vt.t + slept[-1] / 1000.0
            lpm.time = types.SimpleNamespace(time=vt.time, monotonic=vt.monotonic, sleep=sleep)
            if saved[2] is not None:
                lpm.random = _random.Random(seed)
            _VDatetime.clock = vt
            dt.datetime = _VDatetime
            try:
                holder.acquire()
                t0 = vt.t
                case = {"kind": "s3-timeout", "timeout": timeout, "jitter_seed": seed, "store_clock_skew_s": skew, "process_tz": tz or "UTC"}
                rep.evaluations += 1
                rep.nontrivial(["s3-timeout", timeout, seed])
                try:
                    waiter.acquire()
                    rep.violate("C19:s3-two-holders", f"acquired while a live holder is inside its lease (timeout {timeout})", case)
                except TimeoutError:
                    el = vt.t - t0
                    if model_ok:
                        m = driver.ask([f"lock.poll {int(timeout * 1000)} " + " ".join(map(str, slept))])[0]
                        rep.corr_cases += 1
                        if m != f"timeout@{int(round(el * 1000))}":
                            rep.diverge("lock.poll (S3LockProvider.acquire polling loop)", {**case, "sleeps_ms": slept}, m, f"timeout@{int(round(el * 1000))}")
                    if el > timeout + POLL_MAX:
                        rep.violate("C19:timeout-exceeded", f"S3 lock: TimeoutError after {el:.2f}s (virtual) with timeout {timeout}s", case)
                    if el < timeout:
                        rep.violate("C19:timeout-before-deadline", f"S3 lock: TimeoutError after {el:.2f}s with timeout {timeout}s", case)
            finally:
                lpm.time, dt.datetime = saved[0], saved[1]
                if saved[2] is not None:
                    lpm.random = saved[2]
                if tz is not None:
                    if tz_saved is None:
                        os.environ.pop("TZ", None)
                    else:
                        os.environ["TZ"] = tz_saved
                    _time.tzset()


def s3_dead_holder(ctx, rep, sig):
    """a holder that DIED (no release, no renewal): once its lease lapsed, a new acquirer calling the real acquire() gets the lock
    within its timeout — both providers. Used by C03 (a dead writer must not wedge the table)."""
    import random as _random
    import datashard.lock_provider as lpm
    for cls_name in ("S3LockProvider", "S3PollingLockProvider"):
        cls = getattr(lpm, cls_name, None)
        if cls is None:
            continue
        for wait_before in (61.0, 600.0, 50.0):
            vt = VTime()
            fake = fakes3.FakeS3(clock=lambda vt=vt: dt.datetime.fromtimestamp(vt.t, dt.timezone.utc))
            holder = cls(fake, "bkt", "tbl/.locks/metadata.lock", timeout=5.0, lease_seconds=60)
            waiter = cls(fake, "bkt", "tbl/.locks/metadata.lock", timeout=5.0, lease_seconds=60)
            for p_ in (holder, waiter):
                p_._start_heartbeat = lambda: None
                p_._stop_heartbeat_thread = lambda: None
            saved = (lpm.time, dt.datetime, getattr(lpm, "random", None))

            def sleep(s_, vt=vt):
                vt.t = vt.t + max(0.0, float(s_))
            lpm.time = types.SimpleNamespace(time=vt.time, monotonic=vt.monotonic, sleep=sleep)
            if saved[2] is not None:
                lpm.random = _random.Random(7)
            _VDatetime.clock = vt
            dt.datetime = _VDatetime
            case = {"kind": "s3-dead-holder", "provider": cls_name, "lease_s": 60, "waited_s": wait_before, "timeout_s": 5.0}
            try:
                holder.acquire()
                vt.t += wait_before             # the holder's process is gone: nothing renews, nothing releases
                rep.evaluations += 1
                rep.nontrivial(["s3-dead-holder", cls_name, wait_before])
                try:
                    waiter.acquire()
                    got = True
                except TimeoutError:
                    got = False
                except Exception as e:          # noqa: BLE001
                    got = False
                    case["error"] = f"{type(e).__name__}: {e}"[:120]
                if wait_before > 60 and not got:
                    rep.violate(sig, f"{cls_name}: the holder died {wait_before:.0f}s ago (lease 60s) and a new acquirer still cannot take the lock "
                                     f"({case.get('error', 'TimeoutError')})", case)
                if wait_before < 60 and got and cls_name == "S3LockProvider":
                    rep.violate("C19:s3-two-holders", f"{cls_name}: lock taken over {wait_before:.0f}s into a 60s lease", case)
            finally:
                lpm.time, dt.datetime = saved[0], saved[1]
                if saved[2] is not None:
                    lpm.random = saved[2]


def _env_spellings(ctx, rep):
    """configuration glue: the documented switch between the conditional-write lock and the polling lock is not case-sensitive —
    every capitalisation of a value selects the same provider as its lower-case spelling"""
    import datashard.storage_backend as sb
    keys = {"DATASHARD_STORAGE_TYPE": "s3", "DATASHARD_S3_BUCKET": "bkt", "DATASHARD_S3_ACCESS_KEY": "k", "DATASHARD_S3_SECRET_KEY": "s",
            "DATASHARD_S3_ENDPOINT": "https://example.invalid", "DATASHARD_S3_PREFIX": "p"}
    saved = {k_: os.environ.get(k_) for k_ in list(keys) + ["DATASHARD_S3_USE_CONDITIONAL_WRITES"]}
    try:
        os.environ.update(keys)

        def provider(val):
            if val is None:
                os.environ.pop("DATASHARD_S3_USE_CONDITIONAL_WRITES", None)
            else:
                os.environ["DATASHARD_S3_USE_CONDITIONAL_WRITES"] = val
            try:
                be = sb.create_storage_backend("t")
                return type(be.create_lock(".locks/metadata.lock")).__name__
            except Exception as e:      # noqa: BLE001
                return "raise:" + type(e).__name__
        for base_val in ("true", "false", "1", "0", "yes", "no"):
            ref = provider(base_val)
            for v in {base_val.upper(), base_val.capitalize(), " " + base_val, base_val + " "} - {base_val}:
                got = provider(v)
                rep.evaluations += 1
                rep.nontrivial(["env-spelling", v])
                if got != ref and v.strip() != v:
                    continue        # surrounding blanks: only recorded
                if got != ref:
                    rep.violate("C19:lock-kind-depends-on-capitalisation", f"DATASHARD_S3_USE_CONDITIONAL_WRITES={v!r} selects {got}, {base_val!r} selects {ref}",
                                {"kind": "env-spelling", "value": v, "reference": base_val})
        default = provider(None)
        rep.sample({"lock_provider_by_default": default, "true": provider("true"), "false": provider("false")})
    finally:
        for k_, v_ in saved.items():
            if v_ is None:
                os.environ.pop(k_, None)
            else:
                os.environ[k_] = v_


def _s3_case(ctx, rep, rng, model_ok, case_id, directed=None):
    import datashard.lock_provider as lpm
    from datashard.lock_provider import S3LockProvider
    vt = VTime()
    fake = fakes3.FakeS3(clock=lambda: dt.datetime.fromtimestamp(vt.t, dt.timezone.utc))
    n = 3 if directed else rng.choice([2, 3])
    provs = {a: S3LockProvider(fake, "bkt", "tbl/.locks/metadata.lock", timeout=5.0, lease_seconds=60) for a in range(1, n + 1)}
    for p in provs.values():
        p._start_heartbeat = lambda: None
        p._stop_heartbeat_thread = lambda: None
    api = {}            # actor -> api call in progress
    steps, obs = [], []
    acquired_at = {}    # actor -> virtual time of last successful acquire/renew (live bookkeeping for the oracle)
    live_violation = []

    def snap():
        o = fake.objects.get("tbl/.locks/metadata.lock")
        owner = "-"
        if o is not None:
            for a, p in provs.items():
                if o.data.decode() == p.lock_id:
                    owner = str(a)
        acting = sorted({int(x.split(":")[0]) for x in steps if not x.startswith("tick")})
        return f"o{owner}|" + ",".join(f"{a}={'L' if provs[a].is_locked else '-'}" for a in acting)

    pending = {}
    fail_delete = {}

    def hook(phase, op, key, kw):
        a = S.actor()
        if a is None or not key.endswith("metadata.lock") or op in ("body-read", "list-page", "put-body-sent"):
            return
        if phase == "before":
            S.gate(f"s3 {op}")
            if op == "delete" and fail_delete.get(a):
                fail_delete[a] -= 1
                raise fakes3.client_error("InternalError", "DeleteObject")      # the release's DELETE fails transiently: the object stays
            call = api.get(a)
            if op == "put" and kw.get("IfNoneMatch"):
                act = "create"
            elif op == "head":
                act = "head"
            elif op == "put" and kw.get("IfMatch") is not None:
                act = "takeover" if call == "acquire" else "renew"
            elif op == "get":
                act = "isHeld" if call == "is_held" else "relGet"
            elif op == "delete":
                act = "relDelete"
            else:
                act = op
            pending[a] = act

    fake.hook = hook

    def record(a):
        """called right after the API-level effect of the pending request is reflected in the provider's fields"""
        act = pending.pop(a, None)
        if act is not None:
            steps.append(f"{a}:{act}")
            obs.append(None)        # filled lazily below

    script_src = directed or {a: [rng.choice(["acquire", "acquire", "is_held", "renew", "release", "release"]) for _ in range(rng.randint(2, 5))] for a in provs}

    def chooser(s, ready):
        if directed is None and rng.random() < 0.15:
            d = rng.choice([1, 30, 61, 61])
            vt.t += d
            steps.append(f"tick:{d}")
            obs.append(snap())
        if directed is not None:
            return directed_order(s, ready)
        return rng.choice(sorted(ready))

    order = list(directed.get("order", [])) if directed else []

    def directed_order(s, ready):
        while order:
            nxt = order[0]
            if isinstance(nxt, tuple) and nxt[0] == "tick":
                order.pop(0)
                vt.t += nxt[1]
                steps.append(f"tick:{nxt[1]}")
                obs.append(snap())
                continue
            if nxt in ready:
                order.pop(0)
                return nxt
            break
        return sorted(ready)[0]

    S = sched.Sched(chooser, watchdog_s=30)
    last_writer = {"a": None, "prev": None}
    prev_hook = fake.hook

    def lw_hook(phase, op, key, kw, _prev=prev_hook):
        if _prev is not None:
            _prev(phase, op, key, kw)
        if phase == "after" and key.endswith(".locks/metadata.lock"):
            if op == "put":
                last_writer["prev"], last_writer["a"] = last_writer["a"], S.actor()
            elif op == "delete":
                last_writer["prev"], last_writer["a"] = last_writer["a"], None
    fake.hook = lw_hook
    saved = (lpm.time, dt.datetime)
    lpm.time = types.SimpleNamespace(time=vt.time, monotonic=vt.monotonic, sleep=lambda s_: S.gate("sleep"))
    _VDatetime.clock = vt
    dt.datetime = _VDatetime

    def body(a):
        p = provs[a]
        for cmd in (script_src[a] if directed is None else directed["scripts"][a]):
            api[a] = cmd
            try:
                if cmd == "acquire":
                    if p.is_locked:
                        continue
                    # a single pass of the acquire loop (create, then takeover attempt) — the loop itself only repeats it
                    ok = p._try_acquire()
                    if ok:
                        p.is_locked = True
                        # oracle: success while another holder is live?
                        for b, q in provs.items():
                            if b != a and q.is_locked and b in acquired_at and vt.t - acquired_at[b] <= 60 and api.get(b) != "release":
                                o = fake.objects.get("tbl/.locks/metadata.lock")
                                live_violation.append((a, b))
                        acquired_at[a] = vt.t
                elif cmd == "pause":
                    S.gate("pause")         # a scheduling point between two API calls that may make no request at all
                elif cmd == "is_held":
                    r = p.is_held()
                    o = fake.objects.get("tbl/.locks/metadata.lock")
                    if r and (o is None or o.data.decode() != p.lock_id):
                        rep.violate("C19:is-held-true-without-ownership", f"actor {a}: is_held() True but the lock object names someone else", {"kind": "s3", "steps": list(steps)})
                elif cmd == "renew":
                    if p.is_locked:
                        o_before = fake.objects.get("tbl/.locks/metadata.lock")
                        owner_before = next((b for b, q in provs.items() if o_before is not None and last_writer.get("a") == b), None)
                        p._renew_once()
                        if p.is_locked:
                            acquired_at[a] = vt.t
                            if last_writer.get("prev") not in (a, None):
                                # the object this renewal replaced had been written by ANOTHER holder (a takeover): a superseded holder must
                                # observe its loss, not write over the new owner's lock
                                rep.violate("C19:renewal-overwrote-another-holders-lock", f"actor {a}'s renewal succeeded over a lock object last written by "
                                            f"actor {last_writer.get('prev')}", {"kind": "s3", "steps": list(steps)})
                elif cmd in ("release", "release-delete-fails"):
                    if cmd == "release-delete-fails":
                        fail_delete[a] = 1
                    p.release()
                    acquired_at.pop(a, None)
            except Exception as e:      # noqa: BLE001
                rep.notes.append(f"s3 lock api {cmd} raised {type(e).__name__}")
            finally:
                if a in pending:
                    record(a)
                    obs[-1] = snap()
                api[a] = None

    # record model steps at request granularity: wrap fake methods' after-hook via pending→steps when the NEXT gate or end comes
    orig_gate = S.gate

    def gate(what):
        a = S.actor()
        if a is not None and a in pending:
            record(a)
            obs[-1] = snap()
        return orig_gate(what)
    S.gate = gate
    try:
        S.run({a: (lambda a=a: (body(a), record_final(a))) for a in provs})
    finally:
        lpm.time, dt.datetime = saved

    rep.evaluations += 1
    rep.nontrivial(["s3lock", steps])
    rep.distribution["s3lock:runs"] += 1
    if live_violation:
        rel_spans = any(s_.endswith(":relDelete") for s_ in steps)
        sig = "C19:release-spans-takeover" if rel_spans else "C19:s3-acquire-while-live-holder"
        rep.violate(sig, f"actor {live_violation[0][0]} acquired while actor {live_violation[0][1]} held a live (unexpired, unreleased) lock",
                    {"kind": "s3", "steps": list(steps)})
    if model_ok and steps:
        reply = driver.ask(["lock.srun 60 0 " + " ".join(steps)])[0].split(";")
        rep.corr_cases += 1
        final_obs = [o for o in obs]
        if reply[-1] != snap() or "reject" in reply:
            rep.diverge("lock.srun (S3LockProvider on the in-memory S3)", {"steps": steps}, reply[-3:], [snap()])
        if case_id == 0:
            rep.sample({"s3lock_steps": steps, "model_final": reply[-1], "impl_final": snap()})
    return steps


def record_final(a):
    return None


RELEASE_SPANS_TAKEOVER = {
    "scripts": {1: ["acquire", "release"], 2: ["acquire"], 3: ["acquire"]},
    # 1: create ; 1: release GET ; clock +61 ; 2: create(fails) head takeover ; 1: DELETE ; 3: create
    "order": [1, 1, 1, ("tick", 61), 2, 2, 2, 2, 1, 1, 3, 3],
}


IS_HELD_AFTER_TAKEOVER = {
    "scripts": {1: ["acquire", "is_held", "pause", "is_held", "pause", "is_held"], 2: ["acquire", "is_held"]},
    # 1: create ; clock +59 ; 1 looks (still its own) ; clock +2 ; 2: create(fails) head takeover ; 1 looks again, twice ; 2 looks
    "order": [1, 1, ("tick", 59), 1, ("tick", 2), 2, 2, 2, 2, 1, 1, ("tick", 1), 1, 1, 2, 2],
}


OWN_OBJECT_LEFT_BEHIND = {
    # 1 acquires; its release's DELETE fails (the object with 1's id stays); 61 s later 1 acquires again and 2 acquires right after:
    # 1's second acquisition must be a REAL one (fresh lease), so 2 cannot take a 0-second-old lock over
    "scripts": {1: ["acquire", "release-delete-fails", "pause", "acquire", "pause", "is_held"], 2: ["acquire", "is_held"]},
    "order": [1, 1, 1, 1, ("tick", 61), 1, 1, 1, 1, 1, 2, 2, 2, 2, 2, 1, 1, 2],
    "no_model": True,
}


RENEW_AFTER_TAKEOVER = {
    "scripts": {1: ["acquire", "renew", "is_held"], 2: ["acquire", "is_held"]},
    # 1: create ; clock +61 ; 2: create(fails) head takeover ; 1: renewal (its If-Match fails) ; both look
    "order": [1, 1, ("tick", 61), 2, 2, 2, 2, 1, 1, 1, 1, 1, 2, 2],
}


def _same_instance(ctx, rep, base):
    """one FileLock / LocalLockProvider OBJECT used from two places: the second acquisition must wait and time out like any other contender;
    a provider built with a timeout honours it"""
    import time as _time
    from datashard.file_lock import FileLock
    from datashard.storage_backend import LocalStorageBackend
    d = os.path.join(base, "same")
    os.makedirs(d)
    lk = FileLock(os.path.join(d, "s.lock"), timeout=0.3)
    lk.acquire()
    rep.evaluations += 1
    rep.nontrivial(["same-instance"])
    got = None
    try:
        got = lk.acquire(blocking=False)
    except Exception:       # noqa: BLE001
        got = False
    if got:
        rep.violate("C19:flock-two-holders", "the same FileLock object acquired a second time while held: a second thread sharing the object would "
                    "enter the critical section", {"kind": "same-instance"})
    res = []
    th = threading.Thread(target=lambda: res.append(_try(lk)))
    th.start()
    th.join(5)
    if res and res[0] is True:
        rep.violate("C19:flock-two-holders", "a second thread acquired through the same FileLock object while the first holds it", {"kind": "same-instance", "via": "thread"})
    lk.release()
    # the timeout given to the provider is the one that is enforced
    be = LocalStorageBackend(os.path.join(d, "tbl"))
    holder = be.create_lock(".locks/t.lock", timeout=30.0)
    waiter = be.create_lock(".locks/t.lock", timeout=0.4)
    holder.acquire()
    t0 = _time.monotonic()
    rep.evaluations += 1
    try:
        waiter.acquire()
        rep.violate("C19:flock-two-holders", "provider-level: acquired while another provider holds the lock", {"kind": "provider-timeout"})
        waiter.release()
    except TimeoutError:
        el = _time.monotonic() - t0
        if el > 0.4 + 0.5:
            rep.violate("C19:timeout-exceeded", f"LocalLockProvider built with timeout=0.4 s raised TimeoutError after {el:.2f} s", {"kind": "provider-timeout"})
    finally:
        holder.release()


def _wall_clock_steps(ctx, rep, base):
    """a blocked acquirer while the WALL clock is stepped (NTP correction, manual change) backwards / forwards: the timeout is a duration,
    it must be honoured whatever the wall clock does"""
    import time as _time
    import datashard.file_lock as flm
    from datashard.file_lock import FileLock
    for label, wall in (("stepping backwards", lambda t0, n: t0 - 10.0 * n), ("frozen", lambda t0, n: t0), ("jumping a day ahead once", lambda t0, n: t0 + (86400 if n > 3 else 0))):
        path = os.path.join(base, "wall", label.replace(" ", "_"), "x.lock")
        os.makedirs(os.path.dirname(path), exist_ok=True)
        holder, waiter = FileLock(path, timeout=5.0), FileLock(path, timeout=0.5)
        holder.acquire()
        calls = {"n": 0}
        t0 = _time.time()

        def fake_time():
            calls["n"] += 1
            return wall(t0, calls["n"])
        saved = flm.time
        flm.time = types.SimpleNamespace(time=fake_time, monotonic=_time.monotonic, sleep=_time.sleep)
        out = {}

        def run():
            m0 = _time.monotonic()
            try:
                waiter.acquire()
                out["r"] = "acquired"
            except TimeoutError:
                out["r"] = "timeout"
            except Exception as e:      # noqa: BLE001
                out["r"] = type(e).__name__
            out["el"] = _time.monotonic() - m0
        th = threading.Thread(target=run, daemon=True)
        th.start()
        th.join(3.0)
        hung = th.is_alive()
        holder.release()
        th.join(5.0)
        flm.time = saved
        if out.get("r") == "acquired":
            try:
                waiter.release()
            except Exception:       # noqa: BLE001
                pass
        rep.evaluations += 1
        rep.nontrivial(["wall-clock", label])
        case = {"kind": "flock-timeout-under-wall-clock-changes", "wall_clock": label, "timeout_s": 0.5}
        if hung or out.get("r") != "timeout" or out.get("el", 99) > 0.5 + 1.0:
            rep.violate("C19:timeout-exceeded", f"FileLock(timeout=0.5) blocked by a live holder, wall clock {label}: "
                        f"{'still waiting after 3 s' if hung else out}", case)
        elif out["el"] < 0.5 - 0.05:
            rep.violate("C19:timeout-before-deadline", f"FileLock(timeout=0.5), wall clock {label}: TimeoutError after {out['el']:.2f}s", case)


def _try(lk):
    try:
        return lk.acquire()
    except TimeoutError:
        return False


def run(ctx, model_ok):
    rep = Report()
    rep.rule = ("local: 2–3 FileLock instances (real kernel flock, one process, scheduler-driven attempts / releases / deaths / clock jumps past "
                "the deadline) + 8-process shared-counter stress + kill-the-holder + timeout measurement + every ordered placement of ≤3 of {holder "
                "releases, third party attempts, holder re-attempts, third party releases} inside another acquirer's open()→flock() gap; S3: 2–3 S3LockProvider instances on the "
                "in-memory S3 at request granularity with clock advances past the lease, directed release-spans-takeover schedule first. "
                "non-trivial = distinct step sequence.")
    base = scratch_dir("c19-")
    rng = ctx.rng("c19")
    try:
        for i in range(ctx.budget(40, 800)):
            try:
                _flock_case(ctx, rep, rng, base, model_ok, i)
            except sched.Stuck as e:
                rep.notes.append(f"flock case {i} stuck: {e}")
        _stress(ctx, rep, base)
        _flock_gap(ctx, rep, base)
        _fork_inherits(ctx, rep, base)
        _fallback_lock(ctx, rep, base)
        _same_instance(ctx, rep, base)
        _wall_clock_steps(ctx, rep, base)
        _s3_timeout_bound(ctx, rep, model_ok)
        s3_dead_holder(ctx, rep, "C19:s3-dead-holder-never-taken-over")
        _env_spellings(ctx, rep)
        try:
            _s3_case(ctx, rep, rng, model_ok, -1, directed=RELEASE_SPANS_TAKEOVER)
            _s3_case(ctx, rep, rng, model_ok, -2, directed=RENEW_AFTER_TAKEOVER)
            _s3_case(ctx, rep, rng, model_ok, -3, directed=IS_HELD_AFTER_TAKEOVER)
            _s3_case(ctx, rep, rng, False, -4, directed=OWN_OBJECT_LEFT_BEHIND)
        except sched.Stuck as e:
            rep.notes.append(f"directed s3 case stuck: {e}")
        for i in range(ctx.budget(40, 800)):
            try:
                _s3_case(ctx, rep, rng, model_ok, i)
            except sched.Stuck as e:
                rep.notes.append(f"s3 case {i} stuck: {e}")
    finally:
        shutil.rmtree(base, ignore_errors=True)
    return rep
