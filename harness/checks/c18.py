"""C18 — creating a table is idempotent and race-safe.

Theorems: DSV/Props/C18.lean (identity_preserved, one_init, one_init_cas, witnesses) over DSV/Model/Create.lean.
Correspondence: 2–3 real create_table / load_table callers (+ a first appender) as threads under the scheduler, on the
local backend and the in-memory CAS S3, from four initial states {absent, healthy, pointer lost, first version written
but pointer missing}; every trace is accepted step by step by `create.trace`.  Oracle: table uuid / schema / rows seen by
every caller afterwards; schema persistence and schemaless-append behaviour.
"""
import json
import os
import shutil

from .. import driver, fakes3, reader, sched, tablekit, vstore
from ..report import Report
from ..util import scratch_dir
from . import c01

ASSUMPTIONS = c01.ASSUMPTIONS + ["commit point of table creation = the first recoverable metadata version (DESIGN §7)"]


def _abstract(events, uuid_of_name, uuid_num):
    """event log -> create.trace steps"""
    per = {}
    for i, (a, kind, d) in enumerate(events):
        if a is not None:
            per.setdefault(a, []).append((i, kind, d))
    out = {}
    for a, evs in per.items():
        phase = "idle"
        opened_idx, last_meta_read = None, None
        check_idx = None
        for j, (i, kind, d) in enumerate(evs):
            if kind == "lock":
                if d["op"] == "try" and d["result"] and phase in ("idle", "opening"):
                    if opened_idx is not None:
                        out[opened_idx] = [f"{a}:open:-"]
                    out.setdefault(i, []).append(f"{a}:acquire")
                    phase = "locked"
                    check_idx = None
                elif d["op"] == "release" and phase in ("locked", "checking", "wrote", "flipped", "lost"):
                    if phase in ("locked", "checking"):
                        out.setdefault(check_idx if check_idx is not None else i, []).insert(0, f"{a}:check:some")
                    out.setdefault(i, []).append(f"{a}:release")
                    phase = "done"
                continue
            if kind != "storage":
                continue
            op, cls = d["op"], d["cls"]
            if phase in ("idle", "opening"):
                # Table.__init__'s refresh(): the hint probe / read or the recovery listing marks the instant of `open`
                # the resolution instant of refresh(): the hint READ if the hint exists, otherwise the recovery LISTING
                if cls == "hint" and op == "exists" and opened_idx is None:
                    opened_idx = i
                    phase = "opening"
                if (cls == "hint" and op == "read_file") or (cls == "dir" and op == "list_files"):
                    opened_idx = i
                    phase = "opening"
                if cls == "meta" and op == "read_file" and "result" in d and phase == "opening":
                    md = json.loads(d["result"].decode("utf-8"))
                    out[opened_idx] = [f"{a}:open:{uuid_num(md['table_uuid'])}"]
                    phase = "done"
            elif phase == "locked":
                if cls == "hint" and op == "exists":
                    check_idx = i
                    phase = "checking"
            if phase == "checking" and ((cls == "hint" and op == "read_file") or (cls == "dir" and op == "list_files")):
                check_idx = i
            if phase in ("checking", "locked") and cls == "meta" and op == "write_file" and "result" in d:
                out.setdefault(check_idx if check_idx is not None else i, []).insert(0, f"{a}:check:none")
                out.setdefault(i, []).append(f"{a}:write")
                phase = "wrote"
            elif phase == "wrote" and cls == "hint" and op in ("write_file", "write_file_cas"):
                if "result" in d:
                    out.setdefault(i, []).append(f"{a}:flip:ok")
                    phase = "flipped"
                else:
                    out.setdefault(i, []).append(f"{a}:flip:conf")
                    phase = "lost"
        if phase == "opening" and opened_idx is not None and opened_idx not in out:
            out[opened_idx] = [f"{a}:open:-"]        # load_table on nothing: raises
    toks = []
    for i in sorted(out):
        toks += out[i]
    return toks


def run_case(ctx, rep, case, base, model_ok):
    rng = ctx.rng("case", case["id"])
    backend = case["backend"]
    path = os.path.join(base, f"t{case['id']}")
    loc = path if backend == "local" else f"wh/c{case['id']}"
    env = fakes3.S3Env() if backend == "s3cas" else None
    try:
        if env:
            env.__enter__()
        store = reader.DirStore(path) if backend == "local" else reader.S3Store(env.fake, loc)
        # ---- initial state
        init_state = case["initial"]
        orig_uuid, orig_rows = None, []
        if init_state != "absent":
            t0 = tablekit.create(loc)
            if init_state in ("healthy", "pointer-lost"):
                t0.append_records(tablekit.rows(2, tag="orig"))
                orig_rows = sorted(reader.rowkey(r) for r in tablekit.rows(2, tag="orig"))
            if init_state == "pointer-lost-deep":
                # a table with a two-digit version number (v12): the version found by listing must be the numerically highest
                allr = []
                for j_ in range(12):
                    r_ = tablekit.rows(1, start=10 * j_, tag=f"orig{j_}_")
                    t0.append_records(r_)
                    allr += r_
                orig_rows = sorted(reader.rowkey(r) for r in allr)
            orig_uuid = t0.metadata_manager.refresh().table_uuid
            if init_state == "legacy-names-pointer-lost":
                # a table written by an old release: metadata files named vN.metadata.json (no suffix); its pointer is gone
                t0.append_records(tablekit.rows(2, tag="orig"))
                orig_rows = sorted(reader.rowkey(r) for r in tablekit.rows(2, tag="orig"))
                import re as _re
                if backend == "local":
                    mdir = os.path.join(path, "metadata")
                    for fn in os.listdir(mdir):
                        m_ = _re.match(r"^v(\d+)-[0-9a-f]+\.metadata\.json$", fn)
                        if m_:
                            os.rename(os.path.join(mdir, fn), os.path.join(mdir, f"v{m_.group(1)}.metadata.json"))
                    os.remove(os.path.join(path, "metadata.version-hint.text"))
                else:
                    for k_ in list(env.fake.objects):
                        m_ = _re.match(r"^(.*/metadata/)v(\d+)-[0-9a-f]+\.metadata\.json$", k_)
                        if m_:
                            env.fake.objects[f"{m_.group(1)}v{m_.group(2)}.metadata.json"] = env.fake.objects.pop(k_)
                    env.fake.objects.pop(f"{loc}/metadata.version-hint.text", None)
            if init_state in ("pointer-lost", "v0-without-pointer", "pointer-lost-deep"):
                if backend == "local":
                    os.remove(os.path.join(path, "metadata.version-hint.text"))
                else:
                    env.fake.objects.pop(f"{loc}/metadata.version-hint.text", None)
            del t0
        files0 = reader.metadata_files(store)
        # model description of the initial storage
        names = {}
        files_tok = []
        fid = 0
        for v in sorted(files0):
            for n in sorted(files0[v], key=lambda n: store.mtime("metadata/" + n)):
                names[n] = fid
                files_tok.append(f"{fid}/0/{v}")
                fid += 1
        p0 = reader.pointer(store)
        hint_tok = str(names[p0[1]]) if p0 and p0[1] in names else "-"
        uuids = {orig_uuid: 0} if orig_uuid else {}
        actors = case["actors"]            # list of 'create' | 'open' | 'append'
        results = {}

        def uuid_num(u):
            return uuids.get(u, f"?{u[:6]}")

        S = sched.Sched(case["chooser"](rng, env) if case.get("chooser") else sched.random_chooser(rng, 0.5), watchdog_s=40)
        handles = {}

        def mk(ai, kind):
            def fn():
                from datashard.transaction import Table
                # the REAL constructor; storage and lock are instrumented by the patches installed around S.run below
                if kind == "open":
                    t = Table(loc, create_if_not_exists=False)
                    if t.metadata_manager.refresh() is None:
                        raise ValueError("No Iceberg table found")
                else:
                    # creators do not agree on the schema: every other one brings its own (only the winner's is the table's)
                    own = tablekit.schema() if (ai % 2 == 1 or not case.get("schemas_differ")) else \
                        tablekit.schema([{"id": 1, "name": "zzz", "type": "string", "required": False}], schema_id=0)
                    t = Table(loc, create_if_not_exists=True, schema=own)
                handles[ai] = t
                md_ = t.metadata_manager.refresh()
                at_return[ai] = md_.table_uuid if md_ else None
                if kind == "append":
                    row_ = tablekit.rows(1, start=1000 * ai, tag=f"a{ai}_")[0]
                    sch_ = t._get_current_schema()
                    if sch_ is not None and [f_["name"] for f_ in sch_.fields] == ["zzz"]:
                        row_ = {"zzz": f"a{ai}_row"}         # the table is the OTHER creator's: records in ITS schema
                    appended[ai] = row_
                    t.append_records([row_])
                return t
            return fn

        at_return = {}
        appended = {}
        import datashard.storage_backend as sb
        from datashard.metadata_manager import MetadataManager
        oc, omi = sb.create_storage_backend, MetadataManager.__init__

        def wrapped_csb(tp):
            st = oc(tp)
            if S.actor() is not None:
                vstore.instrument_storage(st, S)
            return st

        def mm_init(self, *a_, **k_):
            omi(self, *a_, **k_)
            if S.actor() is not None:
                class _T:
                    pass
                shim = _T()
                shim.storage = type("S", (), {})()
                shim.metadata_manager = self
                vstore.instrument_table(shim, S, shared_rlock=False)
        sb.create_storage_backend = wrapped_csb
        MetadataManager.__init__ = mm_init
        restore = c01._patch_sleep(S)
        try:
            with c01._NoBackoff(S):
                res = S.run({ai + 1: mk(ai + 1, k) for ai, k in enumerate(actors)})
        finally:
            restore()
            sb.create_storage_backend, MetadataManager.__init__ = oc, omi
        rep.evaluations += 1
        rep.distribution[f"{backend}/{init_state}"] += 1
        # uuid numbering: a creator's own v0 carries a fresh uuid -> number it by the actor that wrote it
        for (a, kind, d) in S.events:
            if a is not None and kind == "storage" and d["cls"] == "meta" and d["op"] == "write_file" and "result" in d:
                md = json.loads(d["args"][0].decode("utf-8"))
                if md["table_uuid"] not in uuids and md.get("current_snapshot_id") in (-1, None) and not md.get("snapshots"):
                    uuids[md["table_uuid"]] = a
        case_rec = {"kind": "create-race", "backend": backend, "initial": init_state, "actors": actors, "schedule": list(S.schedule)}
        rep.nontrivial(["c18", backend, init_state, actors, S.schedule])
        # ---- correspondence
        if model_ok and not case.get("no_model"):
            # only the Table.__init__ part of each actor is abstracted; a first appender's commit is C01's business
            evs = S.events
            toks = _abstract(evs, names, uuid_num)
            creators = ",".join(str(i + 1) for i, k in enumerate(actors) if k != "open")
            cfg = "cas=0 excl=1" if backend == "local" else ("cas=1 excl=0" if case.get("lock_may_lapse") else "cas=1 excl=1")
            req = f"create.trace {cfg} files={','.join(files_tok) or '-'} hint={hint_tok} creators={creators or '-'} | " + " ".join(toks)
            reply = driver.ask([req])[0]
            rep.corr_cases += 1
            if not reply.startswith("ok"):
                rep.diverge("create.trace (Table.__init__ / initialize_table)", {"request": req, **case_rec}, reply, "trace of the implementation")
            if case["id"] == 0:
                rep.sample({"trace": req, "reply": reply})
        # ---- oracle
        seen = {}
        for ai, r in res.items():
            if r[0] == "ok":
                md = handles[ai].metadata_manager.refresh()
                seen[ai] = md.table_uuid if md else None
            else:
                seen[ai] = ("raise", type(r[1]).__name__)
        ok_uuids = {u for u in seen.values() if isinstance(u, str)}
        problems = []
        if len(ok_uuids) > 1:
            problems.append(f"callers ended up on different tables: {len(ok_uuids)} identities")
        for ai_, u_ in at_return.items():
            if u_ is not None and ok_uuids and u_ not in ok_uuids:
                problems.append(f"the table caller {ai_} was handed was replaced afterwards by another initialisation")
        if orig_uuid and ok_uuids and ok_uuids != {orig_uuid}:
            problems.append("the identity of the existing table was replaced")
        for ai, k in enumerate(actors):
            r = seen[ai + 1]
            if isinstance(r, tuple) and not (k == "open" and init_state == "absent"):
                if not (k == "open" and r[1] == "ValueError" and init_state == "absent"):
                    # an opener racing with creators from nothing may legitimately find no table yet
                    if not (k == "open" and r[1] == "ValueError" and orig_uuid is None):
                        problems.append(f"caller {ai + 1} ({k}) raised {r[1]}")
        try:
            v = reader.view(store) if reader.pointer(store) else None
        except reader.Broken as e:
            v = None
            problems.append(f"table unreadable afterwards: {e}")
        if v is not None:
            if orig_rows and not all(v["rows"].count(k) == 1 for k in orig_rows):
                problems.append("committed rows of the existing table were lost")
            for ai, k in enumerate(actors):
                if k == "append" and seen[ai + 1] and not isinstance(seen[ai + 1], tuple):
                    key = reader.rowkey(appended.get(ai + 1) or tablekit.rows(1, start=1000 * (ai + 1), tag=f"a{ai + 1}_")[0])
                    if v["rows"].count(key) != 1:
                        problems.append(f"acknowledged first append of caller {ai + 1} is reflected {v['rows'].count(key)} times")
            sch = [s_ for s_ in v["md"]["schemas"] if s_["schema_id"] == v["md"]["current_schema_id"]]
            if any(k != "open" for k in actors) and init_state == "absent" and (not sch or not sch[0]["fields"]):
                problems.append("schema supplied at creation was not persisted")
        # ---- afterwards (sequentially): the pointer is lost while the table is as the race left it — every caller, old handle or
        # new, still ends up on the SAME table; then a schema-less append through EVERY handle uses the persisted schema
        if v is not None and not problems and len(ok_uuids) == 1 and case.get("aftermath", True):
            the_uuid = next(iter(ok_uuids))
            import time as _time
            _real_sleep = _time.sleep
            _time.sleep = lambda s_: _real_sleep(0)
            _ns = fakes3.NoSleep()
            _ns.__enter__()
            try:
                if backend == "local":
                    os.remove(os.path.join(path, "metadata.version-hint.text"))
                else:
                    env.fake.objects.pop(f"{loc}/metadata.version-hint.text", None)
                from datashard.transaction import Table as _T
                again = _T(loc, create_if_not_exists=True, schema=tablekit.schema())
                u2 = again.metadata_manager.refresh().table_uuid
                if u2 != the_uuid:
                    problems.append(f"after the pointer was lost a new caller ends up on another table (identity {uuid_num(u2)} instead of {uuid_num(the_uuid)})")
                for ai_, h_ in handles.items():
                    md_ = h_.metadata_manager.refresh()
                    if md_ is not None and md_.table_uuid != the_uuid:
                        problems.append(f"after the pointer was lost caller {ai_}'s handle moved to another table")
                sch2 = again._get_current_schema()
                names_ = [f_["name"] for f_ in (sch2.fields if sch2 is not None else [])]
                v2 = {"rows": again.scan()}
                if names_:
                    for ai_, h_ in sorted(handles.items()):
                        row_ = {"id": 5000 + ai_, "name": f"post{ai_}"} if names_ == ["id", "name"] else {n_: f"post{ai_}" for n_ in names_}
                        try:
                            h_.append_records([row_])
                        except Exception as e:      # noqa: BLE001
                            problems.append(f"schema-less append of a record in the PERSISTED schema through caller {ai_}'s handle raises {type(e).__name__}: {str(e)[:80]}")
                            break
                    if not problems:
                        try:
                            got_ = _T(loc, create_if_not_exists=False).scan()
                            if len(got_) != len(v2["rows"]) + len(handles):
                                problems.append(f"after one schema-less append per handle the table has {len(got_)} rows instead of {len(v2['rows']) + len(handles)}")
                        except Exception as e:      # noqa: BLE001
                            problems.append(f"the table no longer scans after schema-less appends through every handle: {type(e).__name__}: {str(e)[:80]}")
            except Exception as e:      # noqa: BLE001
                problems.append(f"aftermath raised {type(e).__name__}: {str(e)[:100]}")
            finally:
                _time.sleep = _real_sleep
                _ns.__exit__(None, None, None)
        for p_ in problems:
            rep.violate("C18:" + p_.split(":")[0].replace(" ", "-")[:60], f"{backend}/{init_state} {actors}: {p_}", case_rec)
    finally:
        if env:
            env.__exit__(None, None, None)
        shutil.rmtree(path, ignore_errors=True)


def _init_instrumented(t, loc, create, schema, S):
    """Table.__init__ with the storage instrumented before the managers touch it (same statements as the constructor)."""
    from datashard.file_manager import FileManager
    from datashard.metadata_manager import MetadataManager
    from datashard.snapshot_manager import SnapshotManager
    from datashard.storage_backend import create_storage_backend
    from datashard.transaction import TransactionManager
    t.table_path = loc
    t.storage = create_storage_backend(loc)
    vstore.instrument_storage(t.storage, S)
    t.metadata_manager = MetadataManager(loc, t.storage)
    vstore_lock(t, S)
    t.snapshot_manager = SnapshotManager(t.metadata_manager)
    t.file_manager = FileManager(loc, t.metadata_manager, t.storage)
    t.transaction_manager = TransactionManager(t.metadata_manager, t.snapshot_manager, t.file_manager)
    if create and t.metadata_manager.refresh() is None:
        t._initialize_table(schema, None)


def vstore_lock(t, S):
    """instrument only the lock of an already-instrumented table"""
    class _T:
        pass
    shim = _T()
    shim.storage = type("S", (), {})()      # nothing to wrap
    shim.metadata_manager = t.metadata_manager
    vstore.instrument_table(shim, S, shared_rlock=False)


def _schema_semantics(ctx, rep, base):
    """schema persisted and used by schema-less appends; appends without any schema raise instead of writing empty rows"""
    from datashard import create_table, load_table
    p1 = os.path.join(base, "s1")
    t = create_table(p1, tablekit.schema())
    load_table(p1).append_records(tablekit.rows(2))
    rows = load_table(p1).scan()
    rep.evaluations += 1
    if sorted(r["id"] for r in rows) != [0, 1] or set(rows[0]) != {"id", "name"}:
        rep.violate("C18:schema-not-used-by-schemaless-append", f"rows after schema-less append: {rows}", {"kind": "schema"})
    p2 = os.path.join(base, "s2")
    t2 = create_table(p2)
    rep.evaluations += 1
    try:
        t2.append_records(tablekit.rows(1))
        rep.violate("C18:schemaless-append-accepted", "append without any available schema did not raise", {"kind": "schema"})
    except ValueError:
        pass
    if reader.view(p2)["snaps"]:
        rep.violate("C18:schemaless-append-left-a-snapshot", "rejected append left a snapshot", {"kind": "schema"})
    # create_table with another schema on an existing table never replaces the persisted one
    other = [{"id": 1, "name": "zzz", "type": "string", "required": False}]
    t3 = create_table(p1, tablekit.schema(other, schema_id=9))
    cur = t3._get_current_schema()
    rep.evaluations += 1
    if [f["name"] for f in cur.fields] != ["id", "name"]:
        rep.violate("C18:persisted-schema-replaced", "create_table on an existing table replaced its schema", {"kind": "schema"})


def _preempt_before(what_prefix, age_lock=False):
    """creator 1 runs until its NEXT gated operation starts with `what_prefix` (it is pre-empted there, optionally for longer than the
    lock lease); caller 2 (create + first append) then runs completely; then creator 1 resumes"""
    def mk(rng, env=None):
        st = {"handed": False}

        def choose(s, ready):
            if not st["handed"]:
                w = ready.get(1)
                if w is not None and not str(w).startswith(what_prefix):
                    return 1
                if w is not None:
                    st["handed"] = True
                    if age_lock and env is not None:
                        import datetime as _dt
                        for k_, o_ in env.fake.objects.items():
                            if k_.endswith(".locks/metadata.lock"):
                                o_.mtime = o_.mtime - _dt.timedelta(seconds=120)
            if 2 in ready:
                return 2
            return sorted(ready)[0]
        return choose
    return mk


def _landed_but_failed(ctx, rep):
    """CAS S3, ONE creator: the create-if-absent PUT of the pointer takes effect and the client sees an error (500 / timeout). Whatever the
    first call reports, the location must end up holding ONE usable table that every later caller lands on"""
    from datashard import create_table, load_table
    for fault_on in ("hint", "meta"):
        with fakes3.S3Env() as env, fakes3.NoSleep():
            loc = "wh/landed"
            state = {"left": 1}

            def hook(phase, op, key, kw, state=state):
                cls_ok = key.endswith("metadata.version-hint.text") if fault_on == "hint" else key.endswith(".metadata.json")
                if phase == "after" and op == "put" and cls_ok and state["left"]:
                    state["left"] -= 1
                    raise fakes3.client_error("InternalError", "PutObject")
            env.fake.hook = hook
            outcomes, uuids = [], []
            for who in ("creator-A", "creator-A-again", "creator-B", "opener"):
                try:
                    t = load_table(loc) if who == "opener" else create_table(loc, tablekit.schema())
                    md = t.metadata_manager.refresh()
                    outcomes.append("ok")
                    uuids.append(md.table_uuid if md else None)
                except Exception as e:      # noqa: BLE001
                    outcomes.append(type(e).__name__)
                    uuids.append("raise")
            env.fake.hook = None
            rep.evaluations += 1
            rep.nontrivial(["landed-but-failed", fault_on])
            case = {"kind": "create-put-landed-but-reported-failed", "fault_on": fault_on, "outcomes": outcomes}
            later = [u for u in uuids[1:] if u != "raise"]
            if len(later) < 3 or None in later or len(set(later)) != 1:
                rep.violate("C18:location-unusable-after-a-landed-but-failed-create", f"pointer/metadata PUT landed and returned 500 on the first create "
                            f"({fault_on}); afterwards: {list(zip(('A', 'A again', 'B', 'opener'), outcomes, [str(u)[:8] for u in uuids]))}", case)
                continue
            try:
                t.append_records(tablekit.rows(1))
                if len(load_table(loc).scan()) != 1:
                    rep.violate("C18:location-unusable-after-a-landed-but-failed-create", "first append not reflected", case)
            except Exception as e:      # noqa: BLE001
                rep.violate("C18:location-unusable-after-a-landed-but-failed-create", f"first append raises {type(e).__name__}: {str(e)[:80]}", case)


def cases(ctx):
    rng = ctx.rng("cases")
    out = []
    # a creator pre-empted right before it takes the lock / right before it writes the pointer (beyond the lease on S3)
    for backend in ("local", "s3cas"):
        for pre, age in (("lock.", False), ("write_file hint", False), ("write_file_cas hint", True), ("write_file meta", True)):
            out.append({"backend": backend, "initial": "absent", "actors": ["create", "append"], "chooser": _preempt_before(pre, age), "no_model": True})
            out.append({"backend": backend, "initial": "absent", "actors": ["create", "create"], "chooser": _preempt_before(pre, age),
                        "lock_may_lapse": age})
            out.append({"backend": backend, "initial": "absent", "actors": ["create", "create"], "chooser": _preempt_before(pre, age),
                        "lock_may_lapse": age, "schemas_differ": True, "no_model": True})
    for backend in ("local", "s3cas"):
        for initial in ("absent", "healthy", "pointer-lost", "v0-without-pointer", "legacy-names-pointer-lost", "pointer-lost-deep"):
            out.append({"backend": backend, "initial": initial, "actors": ["create", "create"]})
            out.append({"backend": backend, "initial": initial, "actors": ["create", "open", "append"]})
    for _ in range(ctx.budget(30, 1200)):
        n = rng.choice([2, 2, 3])
        out.append({"backend": rng.choice(["local", "s3cas"]), "initial": rng.choice(["absent", "absent", "healthy", "pointer-lost", "v0-without-pointer", "legacy-names-pointer-lost"]),
                    "actors": [rng.choice(["create", "create", "open", "append"]) for _ in range(n)], "schemas_differ": rng.random() < 0.5})
    for i, c in enumerate(out):
        c["id"] = i
    return out


def run(ctx, model_ok):
    rep = Report()
    rep.rule = ("2–3 concurrent callers ∈ {create_table, load_table, create+first append} × {local, in-memory CAS S3} × initial state ∈ "
                "{absent, healthy with data, pointer lost, first version written but pointer missing}, interleaved at storage-operation "
                "granularity; all 16 (backend, state) × 2 caller mixes first, then random. Trace acceptance by create.trace + identity / "
                "data / schema oracle; schema-persistence semantics.")
    base = scratch_dir("c18-")
    try:
        for c in cases(ctx):
            try:
                run_case(ctx, rep, c, base, model_ok)
            except sched.Stuck as e:
                rep.notes.append(f"case {c['id']} stuck: {e}")
                rep.distribution["stuck"] += 1
        _schema_semantics(ctx, rep, base)
        _landed_but_failed(ctx, rep)
        # an existing table whose pointer is lost, created again while the metadata listing fails: never a second initialisation
        from . import c10
        before_n = len(rep.violations)
        c10._listing_fault(ctx, rep)
        for v_ in rep.violations[before_n:]:
            v_["signature"] = v_["signature"].replace("C10:", "C18:")
    finally:
        shutil.rmtree(base, ignore_errors=True)
    return rep
