"""C13 — file pruning never changes a query's answer.

Theorems: DSV/Props/C13.lean (prune_sound_partial, prune_sound_refuted, inWalk_eq, codec_roundtrip, …).
Correspondence: `_compute_column_bounds` + `_file_may_match` + `_encode_bound/_decode_bound` vs the model on an
exhaustive small domain.  Oracle: pruned decision vs independent evaluator; pruned vs unpruned real scans.
"""
import datetime as dt
import json
import math
import os
import shutil

from .. import driver
from ..fltcommon import NAN, as_float, filter_op, multisets, ref_eval, small_filters, tok, toks
from ..report import Report
from ..util import scratch_dir

ASSUMPTIONS = [
    "column values are abstracted to NULL / NaN / elements of a totally ordered domain (Int in the model)",
    "pyarrow pc.min/pc.max semantics are observed on every run, not proved",
]


def _impl_bounds_and_decision(values, op, lit, vset):
    import pyarrow as pa
    from datashard.data_operations import DataFileManager
    from datashard.data_structures import DataFile, FileFormat, Schema
    from datashard.file_manager import FileManager
    from datashard.filters import FilterExpression, _file_may_match

    schema = Schema(schema_id=1, fields=[{"id": 7, "name": "x", "type": "double", "required": False}])
    table = pa.table({"x": pa.array([as_float(v) for v in values], type=pa.float64())})
    dfm = DataFileManager.__new__(DataFileManager)
    lo, hi = dfm._compute_column_bounds(table, schema)
    # manifest round trip of the bounds (encode -> str -> decode), as scans see them
    def rt(b):
        if not b:
            return b
        return {k: FileManager._decode_bound(FileManager._encode_bound(v)) for k, v in b.items()}
    lo, hi = rt(lo), rt(hi)
    df = DataFile(file_path="/data/f.parquet", file_format=FileFormat.PARQUET, partition_values={},
                  record_count=len(values), file_size_in_bytes=1, lower_bounds=lo, upper_bounds=hi)
    value = [as_float(v) for v in vset] if op in ("in", "notin") else as_float(lit)
    expr = FilterExpression("x", filter_op(op), value)
    keep = _file_may_match(df, [expr], {"x": 7})
    if not lo or 7 not in lo:
        b = "none"
    elif isinstance(lo[7], float) and math.isnan(lo[7]):
        b = "nan"
    else:
        b = f"{int(lo[7])}..{int(hi[7])}"
    return b, ("keep" if keep else "skip")


def _decision_domain(ctx):
    dom = [None, NAN, -1, 0, 1, 2]
    lits = [None, NAN, -1, 0, 1, 2, 3]
    set_elems = [None, NAN, 0, 1, 3]
    size = 3 if not ctx.thorough else 4
    for values in multisets(dom, size):
        for (op, lit, vset) in small_filters(lits, set_elems, 2):
            yield values, op, lit, vset


def _check_decisions(ctx, rep, model_ok):
    cases = list(_decision_domain(ctx))
    reqs = [f"flt.prune {op} {tok(lit)} {toks(vset)} {toks(values)}" for values, op, lit, vset in cases]
    model = driver.ask(reqs) if model_ok else [None] * len(reqs)
    for (values, op, lit, vset), m in zip(cases, model):
        b, d = _impl_bounds_and_decision(values, op, lit, vset)
        impl = f"{b} {d}"
        rep.evaluations += 1
        rep.distribution[f"decision:{op}:{d}"] += 1
        if d == "skip":
            rep.nontrivial(["prune", values, op, lit, vset])
        if m is not None:
            rep.corr_cases += 1
            if m != impl:
                rep.diverge("flt.prune (_compute_column_bounds/_file_may_match)",
                            {"values": [tok(v) for v in values], "op": op, "lit": tok(lit), "set": [tok(v) for v in vset]}, m, impl)
        # property oracle on the implementation: a skipped file must contain no matching row
        if d == "skip":
            for x in values:
                r = ref_eval(op, as_float(lit), [as_float(v) for v in vset], as_float(x))
                if r is True:
                    isnan = isinstance(x, float) and math.isnan(x)
                    single = b != "none" and b != "nan" and b.split("..")[0] == b.split("..")[1]
                    if isnan and op == "ne" and single:
                        sig = "C13:nan-row-pruned-by-ne-on-single-valued-bounds"
                    else:
                        sig = f"C13:wrongly-pruned:{op}:{'nan-row' if isnan else 'value-row'}"
                    rep.violate(sig, f"file {[tok(v) for v in values]} is skipped for {op} {tok(lit)} {toks(vset)} although row {tok(x)} matches",
                                {"kind": "decision", "values": [tok(v) for v in values], "op": op, "lit": tok(lit), "set": [tok(v) for v in vset]})
                    break
    rep.sample({"decision_case": reqs[len(reqs) // 2], "model": model[len(reqs) // 2]})


CODEC_VALUES = [
    ("bool", True), ("bool", False), ("int", 0), ("int", -1), ("int", 2**53 + 1), ("int", -(2**63)), ("int", 2**63 - 1),
    ("float", 0.5), ("float", -0.0), ("float", float("inf")), ("float", float("-inf")), ("float", float("nan")),
    ("float", 1e308), ("float", 5e-324), ("float", 3.4028234663852886e38), ("float", 0.10000000149011612),
    ("str", "123"), ("str", "1e5"), ("str", "true"), ("str", "nan"), ("str", ""), ("str", " 7 "), ("str", "naïve ✓ 名"),
    ("str", '{"t": "int", "v": 1}'), ("str", "null"),
    ("datetime", dt.datetime(2020, 2, 29, 23, 59, 59, 999999)), ("datetime", dt.datetime(1, 1, 1)),
    ("datetime", dt.datetime(2024, 1, 1, tzinfo=dt.timezone.utc)),
    ("date", dt.date(1970, 1, 1)), ("date", dt.date(9999, 12, 31)),
    ("time", dt.time(12, 30, 15, 250000)),
]


def _cls_of(v):
    if isinstance(v, bool):
        return "bool"
    if isinstance(v, int):
        return "int"
    if isinstance(v, float):
        return "float"
    if isinstance(v, dt.datetime):
        return "datetime"
    if isinstance(v, dt.date):
        return "date"
    if isinstance(v, dt.time):
        return "time"
    if isinstance(v, str):
        return "str"
    return "other"


def _same(a, b):
    if type(a) is not type(b):
        return False
    if isinstance(a, float) and math.isnan(a):
        return math.isnan(b)
    if isinstance(a, float):
        return a == b and math.copysign(1, a) == math.copysign(1, b)
    return a == b


def _check_codec(ctx, rep, model_ok):
    from datashard.file_manager import FileManager
    import decimal
    vals = list(CODEC_VALUES) + [("other", decimal.Decimal("1.5")), ("other", b"ab")]
    reqs = [f"codec.rt {cls} x" for cls, _ in vals]
    model = driver.ask(reqs) if model_ok else [None] * len(reqs)
    for (cls, v), m in zip(vals, model):
        enc = FileManager._encode_bound(v)
        # through the Avro map<string> the encoded bound is just a str
        back = FileManager._decode_bound(str(enc))
        impl_cls = _cls_of(back)
        rep.evaluations += 1
        rep.nontrivial(["codec", cls, repr(v)])
        rep.distribution[f"codec:{cls}"] += 1
        if m is not None:
            rep.corr_cases += 1
            if m.split(" ")[0] != impl_cls:
                rep.diverge("codec.rt (_encode_bound/_decode_bound)", {"cls": cls, "value": repr(v)}, m, impl_cls)
        if cls != "other" and not _same(back, v):
            rep.violate(f"C13:codec-not-type-faithful:{cls}", f"bound {v!r} decodes to {back!r}", {"kind": "codec", "cls": cls, "value": repr(v)})
    rep.sample({"codec_case": repr(CODEC_VALUES[4]), "encoded": FileManager._encode_bound(CODEC_VALUES[4][1])})


def _rows_key(rows):
    def k(v):
        if isinstance(v, float) and math.isnan(v):
            return "nan"
        return repr(v)
    return sorted(json.dumps({c: k(v) for c, v in r.items()}, sort_keys=True) for r in rows)


def _f32(x):
    import struct
    return struct.unpack("f", struct.pack("f", x))[0]


def _compare(rep, col, op, val, flt, pruned, unpruned):
    """pruned vs unpruned result of one real scan; classify the cause of a difference (DESIGN §8)."""
    if _rows_key(pruned) == _rows_key(unpruned):
        return
    pk = _rows_key(pruned)
    lost = [r for r in unpruned if _rows_key([r])[0] not in pk]
    lost_vals = [r.get(col) for r in lost]
    nanlost = any(isinstance(v, float) and math.isnan(v) for v in lost_vals)
    sig = f"C13:e2e-pruned-differs:{op}:{col}"
    if nanlost and op == "!=":
        sig = "C13:nan-row-pruned-by-ne-on-single-valued-bounds"
    elif col == "g" and op == "in" and lost_vals and all(
            isinstance(v, float) and any(isinstance(l, float) and l != v and _f32(l) == v for l in val) for v in lost_vals):
        # 32-bit float column, IN literal that is not float32-representable: Arrow's is_in narrows the value set to
        # float32 (so the row matches when every file is read) while the bound comparison is done in float64
        sig = "C13:in-on-float32-column-literal-not-float32-representable"
    rep.violate(sig, f"scan({flt!r}) returns {len(pruned)} rows with pruning, {len(unpruned)} without",
                {"kind": "e2e", "filter": repr(flt), "lost": [repr(r) for r in lost[:3]]})


def _directed(ctx, rep):
    """Directed regression / finding cases, run before the random tables."""
    import datashard.filters as F
    from datashard import Schema, create_table
    base = scratch_dir("c13d-")
    orig = F.prune_files_by_bounds
    # a binary column (it carries no bounds) sits BETWEEN columns that do: bounds must stay with their own field ids
    fields = [{"id": 1, "name": "i", "type": "long", "required": False},
              {"id": 9, "name": "y", "type": "binary", "required": False},
              {"id": 10, "name": "k", "type": "long", "required": False},
              {"id": 2, "name": "f", "type": "double", "required": False},
              {"id": 7, "name": "g", "type": "float", "required": False},
              {"id": 3, "name": "s", "type": "string", "required": False},
              {"id": 5, "name": "t", "type": "timestamp", "required": False},
              {"id": 4, "name": "d", "type": "date", "required": False}]
    L = "customer-0123456789"
    T0 = dt.datetime(2020, 1, 1, 12, 0, 0)
    cases = [
        # long strings sharing a prefix longer than any truncation a writer might apply to bounds
        ([{"s": L + "-a"}, {"s": L + "-m"}], "s", "==", L + "-m"),
        ([{"s": L + "-a"}, {"s": L + "-m"}], "s", ">", L + "-b"),
        ([{"s": L + "-a"}, {"s": L + "-m"}], "s", "between", (L + "-c", L + "-z")),
        ([{"s": L + "-a"}, {"s": L + "-m"}], "s", "in", [L + "-m"]),
        ([{"s": "名" * 20 + "a"}, {"s": "名" * 20 + "z"}], "s", ">=", "名" * 20 + "y"),
        # a date column filtered with a datetime literal that has a time of day (Arrow widens the column; bounds must not narrow the literal)
        ([{"d": dt.date(2024, 1, 1)}, {"d": dt.date(2024, 1, 1)}], "d", "<", dt.datetime(2024, 1, 1, 12, 0)),
        ([{"d": dt.date(2024, 2, 10)}], "d", "!=", dt.datetime(2024, 2, 10, 8, 30)),
        ([{"d": dt.date(2024, 2, 10)}, {"d": dt.date(2024, 2, 11)}], "d", "<=", dt.datetime(2024, 2, 10, 8, 30)),
        # a column WITHOUT bounds (float file holding a NaN; binary) next to columns that have bounds
        ([{"i": 1, "f": 1.0}, {"i": 2, "f": NAN}, {"i": 3, "f": 2.0}], "f", ">", 0.0),
        ([{"i": 1, "f": 1.0}, {"i": 2, "f": NAN}, {"i": 3, "f": 2.0}], "f", "is_not_null", True),
        ([{"i": 1, "y": b"a"}, {"i": 2, "y": b"b"}], "y", "is_not_null", True),
        ([{"i": 1, "y": b"a"}, {"i": 2, "y": b"b"}], "y", "==", b"b"),
        # sub-millisecond timestamps
        ([{"t": T0.replace(microsecond=100)}, {"t": T0.replace(microsecond=900)}], "t", ">", T0.replace(microsecond=500)),
        ([{"t": T0.replace(microsecond=100)}, {"t": T0.replace(microsecond=900)}], "t", "==", T0.replace(microsecond=900)),
        ([{"f": 1.0, "g": 0.5}, {"f": NAN, "g": 0.5}], "f", "!=", 1.0),        # fixed 6a270b4 (regression)
        ([{"f": 1.0, "g": 0.1}], "g", "in", [0.1]),                              # float32 narrowing of IN literals
        ([{"f": 1.0, "g": 0.1}], "g", "==", 0.1),
        ([{"f": 2.0, "g": NAN}, {"f": 2.0, "g": 0.5}], "g", "!=", 0.5),
        # columns after the binary one, with value ranges far apart
        ([{"k": 1, "f": 500.0, "y": b"a"}, {"k": 2, "f": 600.0, "y": b"b"}], "f", ">=", 100.0),
        ([{"k": 1, "f": 500.0, "y": b"a"}, {"k": 2, "f": 600.0, "y": b"b"}], "f", "==", 600.0),
        ([{"i": 7, "k": 250, "y": b"a"}, {"i": 8, "k": 300, "y": None}], "k", "between", (200, 260)),
        ([{"i": 7, "k": 250, "f": 1.0}, {"i": 8, "k": 300, "f": 2.0}], "k", "in", [300]),
        # strings longer than any bound truncation whose deciding character lies outside the Basic Multilingual Plane
        ([{"s": "x" * 16 + "\U0001F600a"}, {"s": "x" * 16 + "\U0001F600z"}], "s", "==", "x" * 16 + "\U0001F600z"),
        ([{"s": "x" * 16 + "\U0001F600a"}, {"s": "x" * 16 + "\U0001F600z"}], "s", ">=", "x" * 16 + "\U0001F600m"),
        ([{"s": "y" * 16 + "\U00020000"}, {"s": "y" * 3}], "s", "in", ["y" * 16 + "\U00020000"]),
        ([{"s": "z" * 40}, {"s": "z" * 16 + "\uffff\uffffq"}], "s", ">", "z" * 16 + "\uffff"),
        # a 32-bit float column STORES the nearest float32 (0.1 -> 0.10000000149…, 0.7 -> 0.69999998807…): bounds must describe what is
        # stored, not what was handed in
        ([{"g": 0.1}], "g", ">", 0.1),
        ([{"g": 0.7}], "g", "<", 0.7),
        ([{"g": 0.1}, {"g": 0.05}], "g", ">=", 0.10000000149011612),
        ([{"g": 0.7}, {"g": 0.9}], "g", "<=", 0.699999988079071),
        ([{"g": 16777217.0}], "g", "==", 16777216.0),
        ([{"g": 0.1}], "g", "between", (0.1000000001, 0.2)),
    ]
    try:
        for i, (rows, col, op, val) in enumerate(cases):
            path = os.path.join(base, f"d{i}")
            t = create_table(path, Schema(schema_id=1, fields=fields))
            t.append_records(rows)
            t.append_records([{"f": 9.0, "g": 9.0}])
            flt = {col: ((op, val) if op not in ("is_null", "is_not_null") else (op, True))}
            F.prune_files_by_bounds = lambda data_files, expressions, schema: data_files
            try:
                unpruned = t.scan(filter=flt)
            finally:
                F.prune_files_by_bounds = orig
            pruned = t.scan(filter=flt)
            rep.evaluations += 1
            rep.nontrivial(["directed", i])
            rep.distribution["e2e:directed"] += 1
            _compare(rep, col, op, val, flt, pruned, unpruned)
    finally:
        F.prune_files_by_bounds = orig
        shutil.rmtree(base, ignore_errors=True)


def _end_to_end(ctx, rep):
    """Random multi-file tables across column types: scan(filter) with pruning vs with pruning disabled."""
    import datashard.filters as F
    from datashard import Schema, create_table
    rng = ctx.rng("e2e")
    n_tables = ctx.budget(6, 60)
    base = scratch_dir("c13-")
    orig = F.prune_files_by_bounds
    fields = [
        {"id": 1, "name": "i", "type": "long", "required": False},
        {"id": 2, "name": "f", "type": "double", "required": False},
        {"id": 3, "name": "s", "type": "string", "required": False},
        {"id": 4, "name": "d", "type": "date", "required": False},
        {"id": 5, "name": "t", "type": "timestamp", "required": False},
        {"id": 6, "name": "b", "type": "boolean", "required": False},
        {"id": 7, "name": "g", "type": "float", "required": False},
    ]
    ints = [None, -3, 0, 1, 2, 2**53 + 1, -(2**62)]
    floats = [None, NAN, -1.5, 0.0, 1.0, 2.5, float("inf")]
    strs = [None, "", "10", "9", "a", "b", "é", "名", "customer-0123456789", "customer-0123456789-a", "customer-0123456789-b", "customer-01234567"]
    dates = [None, dt.date(2020, 1, 1), dt.date(2020, 1, 2), dt.date(1999, 12, 31)]
    tss = [None, dt.datetime(2020, 1, 1, 0, 0, 0), dt.datetime(2020, 1, 1, 0, 0, 1), dt.datetime(2021, 6, 1),
           dt.datetime(2020, 1, 1, 0, 0, 0, 100), dt.datetime(2020, 1, 1, 0, 0, 0, 900)]
    bools = [None, True, False]
    f32 = [None, 0.5, 1.5, 0.1, NAN]
    pools = {"i": ints, "f": floats, "s": strs, "d": dates, "t": tss, "b": bools, "g": f32}
    try:
        for ti in range(n_tables):
            path = os.path.join(base, f"t{ti}")
            t = create_table(path, Schema(schema_id=1, fields=fields))
            all_rows = []
            for _fi in range(rng.randint(1, 4)):
                # files are often single-valued per column so that pruning actually fires
                narrow = {c: rng.sample(p, rng.choice([1, 1, 2, 3])) for c, p in pools.items()}
                rows = [{c: rng.choice(narrow[c]) for c in pools} for _ in range(rng.randint(1, 4))]
                t.append_records(rows)
                all_rows += rows
            for _q in range(ctx.budget(12, 30)):
                col = rng.choice(list(pools))
                pool = [v for v in pools[col] if v is not None]
                op = rng.choice(["==", "!=", "<", "<=", ">", ">=", "in", "not_in", "between"])
                if op in ("in", "not_in"):
                    val = rng.sample(pools[col], rng.randint(0, 3))
                    if any(isinstance(v, float) and math.isnan(v) for v in val):
                        val = [v for v in val if not (isinstance(v, float) and math.isnan(v))]
                elif op == "between":
                    a, b = rng.choice(pool), rng.choice(pool)
                    val = (a, b)
                else:
                    val = rng.choice(pool)
                flt = {col: (op, val)}
                try:
                    F.prune_files_by_bounds = lambda data_files, expressions, schema: data_files
                    try:
                        unpruned = t.scan(filter=flt)
                    finally:
                        F.prune_files_by_bounds = orig
                except Exception:
                    rep.distribution["e2e:unpruned-raises"] += 1
                    continue          # DESIGN §7: compared only when the unpruned scan succeeds
                try:
                    pruned = t.scan(filter=flt)
                except Exception as e:
                    rep.violate("C13:pruned-scan-raises", f"scan with pruning raises {type(e).__name__} but succeeds without",
                                {"kind": "e2e", "filter": repr(flt)})
                    continue
                rep.evaluations += 1
                rep.distribution[f"e2e:{op}"] += 1
                if len(unpruned) != len(all_rows):
                    rep.nontrivial(["e2e", ti, repr(flt)])
                _compare(rep, col, op, val, flt, pruned, unpruned)
            shutil.rmtree(path, ignore_errors=True)
    finally:
        F.prune_files_by_bounds = orig
        shutil.rmtree(base, ignore_errors=True)


def _big_files(ctx, rep):
    """files larger than the writer's internal batch (1000 rows): bounds must cover every batch"""
    from datashard import Schema, create_table
    import datashard.filters as F
    base = scratch_dir("c13b-")
    orig = F.prune_files_by_bounds
    try:
        fields = [{"id": 1, "name": "i", "type": "long", "required": True}, {"id": 2, "name": "f", "type": "double", "required": False},
                  {"id": 3, "name": "s", "type": "string", "required": False}]
        for n, order in ((2500, "asc"), (2500, "desc"), (1001, "asc"), (3000, "zigzag")):
            path = os.path.join(base, f"b{n}{order}")
            t = create_table(path, Schema(schema_id=1, fields=fields))
            ids = list(range(n))
            if order == "desc":
                ids.reverse()
            elif order == "zigzag":
                ids = [x if (x // 1000) % 2 == 0 else (x // 1000) * 1000 + 999 - x % 1000 for x in ids]
            t.append_records([{"i": x, "f": (NAN if (order == "zigzag" and x == 1500) else -float(x)), "s": f"k{x:05d}"} for x in ids])
            t.append_records([{"i": n + 10, "f": 1.0, "s": "zz"}])
            for col, mk in (("i", lambda x: x), ("f", lambda x: -float(x)), ("s", lambda x: f"k{x:05d}")):
                for x in (0, 1, 998, 999, 1000, 1001, 1999, 2000, n - 1, n):
                    for op in ("==", ">", ">=", "<", "<=", "!="):
                        flt = {col: (op, mk(x))}
                        F.prune_files_by_bounds = lambda data_files, expressions, schema: data_files
                        try:
                            unpruned = t.scan(filter=flt, columns=["i"])
                        finally:
                            F.prune_files_by_bounds = orig
                        pruned = t.scan(filter=flt, columns=["i"])
                        rep.evaluations += 1
                        rep.nontrivial(["big", n, order, repr(flt)])
                        if sorted(r["i"] for r in pruned) != sorted(r["i"] for r in unpruned):
                            rep.violate("C13:pruned-differs-from-unpruned", f"{n}-row file ({order}): {flt} → {len(pruned)} rows with pruning, "
                                        f"{len(unpruned)} without", {"kind": "big-file", "rows": n, "order": order, "filter": repr(flt)})
            shutil.rmtree(path, ignore_errors=True)
        # a NaN in ONE batch of a large file: no bounds for that column at all (bounds of the other batches do not cover its batch)
        path = os.path.join(base, "bnan")
        t = create_table(path, Schema(schema_id=1, fields=fields))
        t.append_records([{"i": k, "f": (NAN if k == 1500 else (50.0 if k == 1501 else 4.0)), "s": "c"} for k in range(2500)])
        t.append_records([{"i": 9000, "f": 4.0, "s": "c"}])
        for flt in ({"f": ("!=", 4.0)}, {"f": (">=", 50.0)}, {"f": ("==", 50.0)}, {"f": (">", 6.0)}, {"f": ("in", [50.0])}):
            F.prune_files_by_bounds = lambda data_files, expressions, schema: data_files
            try:
                unpruned = t.scan(filter=flt, columns=["i"])
            finally:
                F.prune_files_by_bounds = orig
            pruned = t.scan(filter=flt, columns=["i"])
            rep.evaluations += 1
            rep.nontrivial(["big-nan", repr(flt)])
            if sorted(r["i"] for r in pruned) != sorted(r["i"] for r in unpruned):
                rep.violate("C13:pruned-differs-from-unpruned", f"2500-row file with one NaN in its second thousand: {flt} → {len(pruned)} rows with pruning, "
                            f"{len(unpruned)} without", {"kind": "big-file-nan", "filter": repr(flt)})
        shutil.rmtree(path, ignore_errors=True)
    finally:
        F.prune_files_by_bounds = orig
        shutil.rmtree(base, ignore_errors=True)


def run(ctx, model_ok):
    rep = Report()
    rep.rule = ("exhaustive: column multisets of size ≤3 (thorough ≤4) over {NULL,NaN,-1,0,1,2} × every operator × literal in "
                "{NULL,NaN,-1..3} / value sets ≤2 over {NULL,NaN,0,1,3}; codec value list; random multi-file tables over 7 column types "
                "(incl. strings sharing a 16+ character prefix, sub-millisecond timestamps) comparing pruned vs unpruned scans; files of 1001–3000 "
                "rows (beyond the writer's batch size) in ascending / descending / zigzag order × thresholds around the batch edges. non-trivial = the file is actually skipped / the filter removes rows; "
                "distinct = distinct (values, filter) or (table, filter).")
    _check_decisions(ctx, rep, model_ok)
    _check_codec(ctx, rep, model_ok)
    _directed(ctx, rep)
    _end_to_end(ctx, rep)
    _big_files(ctx, rep)
    rep.exhaustive = True
    return rep


def replay(ctx, case):
    if case.get("kind") == "decision":
        from ..fltcommon import untok
        values = [None if t == "N" else (NAN if t == "A" else int(t)) for t in case["values"]]
        lit = None if case["lit"] == "N" else (NAN if case["lit"] == "A" else int(case["lit"]))
        vset = [None if t == "N" else (NAN if t == "A" else int(t)) for t in case["set"]]
        b, d = _impl_bounds_and_decision(values, case["op"], lit, vset)
        bad = d == "skip" and any(ref_eval(case["op"], as_float(lit), [as_float(v) for v in vset], as_float(x)) is True for x in values)
        return (not bad), f"bounds={b} decision={d}; a matching row exists: {bad}"
    return True, "replay of this case kind re-runs the full check: ./check C13"
