"""C20 — both storage backends implement the same contract.

Theorems: DSV/Props/C20.lean (range_reader_refines_file, ranges_in_bounds, retry_*, listing_*).
Correspondence: S3RangeFile / retry_with_backoff / list_files vs the model.  Oracle: twin-backend operation
sequences (local directory vs S3StorageBackend over an in-memory S3), seek/read programs vs a local file.
"""
import io
import itertools
import os
import shutil

from .. import driver, fakes3
from ..report import Report
from ..util import enc, scratch_dir

ASSUMPTIONS = [
    "S3 is strongly consistent, PUT is atomic, a ranged GET returns exactly the requested bytes (harness/fakes3.py is that contract)",
    "exists() is compared on file keys and 'dir/' forms, not on bare directory names (DESIGN §7)",
]


# ------------------------------------------------------------------ range reader

def _rng_alphabet(size):
    ops = [("t",), ("ra",)]
    for n in sorted({0, 1, 2, size, size + 3}):
        ops.append(("r", n))
    for off, w in [(0, "set"), (1, "set"), (size, "set"), (size + 2, "set"), (-1, "set"), (-1, "cur"), (1, "cur"),
                   (0, "end"), (-1, "end"), (-size - 1, "end"), (2, "end"), (0, "bad")]:
        ops.append(("s", off, w))
    # de-duplicate
    seen, out = set(), []
    for o in ops:
        if o not in seen:
            seen.add(o)
            out.append(o)
    return out


def _tok(o):
    return ":".join(str(x) for x in o)


WH = {"set": 0, "cur": 1, "end": 2, "bad": 7}


def _run_file(f, prog, content, is_s3, fake=None):
    """run a program on a raw file object; returns list of canonical observations (+ Range headers for S3)."""
    obs = []
    for o in prog:
        before = len(fake.log) if fake is not None else 0
        try:
            if o[0] == "t":
                obs.append(f"P{f.tell()}")
            elif o[0] == "s":
                p = f.seek(o[1], WH[o[2]])
                obs.append(f"P{p}")
            elif o[0] == "r":
                start = f.tell()
                buf = bytearray(o[1])
                n = f.readinto(buf)
                n = 0 if n is None else n
                data = bytes(buf[:n])
                ok = data == content[start:start + n]
                obs.append(f"D{start},{n},{f.tell()}" + ("" if ok else "!bytes"))
            elif o[0] == "ra":
                start = f.tell()
                data = f.readall()
                ok = data == content[start:start + len(data)]
                obs.append(f"D{start},{len(data)},{f.tell()}" + ("" if ok else "!bytes"))
        except (ValueError, OSError):
            obs.append("E")
        except Exception as e:      # noqa: BLE001 — an error type a local file never raises (e.g. a botocore ClientError escaping)
            obs.append("X:" + type(e).__name__)
        if fake is not None:
            rngs = [e[2] for e in fake.log[before:] if e[0].startswith("get")]
            if rngs:
                obs[-1] += "@" + ",".join(r[6:] for r in rngs)
    return obs


def _check_range(ctx, rep, model_ok):
    from datashard.storage_backend import S3RangeFile
    base = scratch_dir("c20r-")
    sizes = [0, 1, 2, 5]
    plen = 3 if not ctx.thorough else 4
    total = 0
    try:
        for size in sizes:
            content = bytes((i * 37 + 11) % 251 for i in range(size))
            fake = fakes3.FakeS3()
            fake.put_object(Bucket="bkt", Key="k", Body=content)
            lp = os.path.join(base, f"f{size}")
            with open(lp, "wb") as fh:
                fh.write(content)
            alpha = _rng_alphabet(size)
            progs = list(itertools.product(alpha, repeat=plen))
            if not ctx.thorough and not ctx.intensify:
                progs = progs[:: 5] + list(itertools.product(alpha, repeat=2))
            reqs = [f"rng.prog {size} 0 " + " ".join(_tok(o) for o in p) for p in progs]
            model = driver.ask(reqs) if model_ok else [None] * len(reqs)
            for p, m in zip(progs, model):
                fake.log.clear()
                impl = _run_file(S3RangeFile(fake, "bkt", "k", size), p, content, True, fake)
                with open(lp, "rb", buffering=0) as lf:
                    ref = _run_file(lf, p, content, False)
                total += 1
                rep.evaluations += 1
                if any(o.startswith("D") and not o.startswith(f"D{o[1:].split(',')[0]},0,") for o in impl):
                    rep.nontrivial(["rng", size, [_tok(o) for o in p]])
                if m is not None:
                    rep.corr_cases += 1
                    if m.split(" ") != impl:
                        rep.diverge("rng.prog (S3RangeFile)", {"size": size, "prog": [_tok(o) for o in p]}, m, " ".join(impl))
                # property oracle: same bytes/positions/errors as the local file; ranges inside the object
                stripped = [o.split("@")[0] for o in impl]
                if stripped != ref:
                    rep.violate("C20:range-reader-differs-from-file", f"size {size} program {[_tok(o) for o in p]}: S3 {stripped} vs file {ref}",
                                {"kind": "rng", "size": size, "prog": [_tok(o) for o in p]})
                for o in impl:
                    if "@" in o:
                        for r in o.split("@")[1].split(","):
                            a, b = (int(x) for x in r.split("-"))
                            if not (0 <= a <= b <= size - 1):
                                rep.violate("C20:range-out-of-bounds", f"requested bytes={a}-{b} on an object of {size} bytes",
                                            {"kind": "rng", "size": size, "prog": [_tok(o) for o in p]})
                    if "!bytes" in o:
                        rep.violate("C20:range-reader-wrong-bytes", f"size {size} program {[_tok(o) for o in p]}",
                                    {"kind": "rng", "size": size, "prog": [_tok(o) for o in p]})
            rep.sample({"rng_case": reqs[len(reqs) // 3], "model": model[len(reqs) // 3]})
        rep.distribution["rng:programs"] += total
        _check_buffered(ctx, rep, base)
    finally:
        shutil.rmtree(base, ignore_errors=True)


def _check_buffered(ctx, rep, base):
    """open_seekable (BufferedReader over S3RangeFile) vs a buffered local file, incl. sizes around the buffer size."""
    rng = ctx.rng("buffered")
    sizes = [0, 1, 7, 4096] + ([(1 << 20) - 1, (1 << 20) + 1] if ctx.thorough else [(1 << 20) + 1])
    for size in sizes:
        content = bytes(rng.getrandbits(8) for _ in range(min(size, 4096))) * (size // 4096 + 1)
        content = content[:size]
        fake = fakes3.FakeS3()
        be = fakes3.make_backend("tbl", True, fake)
        fake.put_object(Bucket="bkt", Key="tbl/data/o", Body=content)
        lp = os.path.join(base, f"b{size}")
        with open(lp, "wb") as fh:
            fh.write(content)
        for _ in range(ctx.budget(20, 200)):
            try:
                probe = be.open_seekable("data/o")
                probe.close()
            except Exception as e:      # noqa: BLE001
                rep.evaluations += 1
                rep.violate("C20:buffered-reader-differs-from-file", f"size {size}: S3 open_seekable raises {type(e).__name__}: {str(e)[:80]}; the local file opens",
                            {"kind": "buffered", "size": size})
                break
            with be.open_seekable("data/o") as sf, open(lp, "rb") as lf:
                for _step in range(rng.randint(1, 8)):
                    k = rng.random()
                    try:
                        if k < 0.5:
                            n = rng.choice([0, 1, 3, 100, 5000, size, size + 1, -1])
                            a, b = sf.read(n), lf.read(n)
                        elif k < 0.85:
                            wh = rng.choice([0, 1, 2])
                            off = rng.choice([0, 1, -1, size, -size, size // 2, -(size // 2), size + 5, -size - 1])
                            try:
                                a = sf.seek(off, wh)
                            except (ValueError, OSError):
                                a = "E"
                            try:
                                b = lf.seek(off, wh)
                            except (ValueError, OSError):
                                b = "E"
                        else:
                            a, b = sf.tell(), lf.tell()
                    except Exception as e:       # noqa: BLE001
                        a, b = f"raise {type(e).__name__}", "?"
                    rep.evaluations += 1
                    if a != b:
                        rep.violate("C20:buffered-reader-differs-from-file", f"size {size}: S3 {str(a)[:40]!r} vs file {str(b)[:40]!r}",
                                    {"kind": "buffered", "size": size})
                        break
        for e in fake.log:
            if e[0].startswith("get") and e[2]:
                a, b = (int(x) for x in e[2][6:].split("-"))
                if not (0 <= a <= b <= size - 1):
                    rep.violate("C20:range-out-of-bounds", f"requested {e[2]} on an object of {size} bytes", {"kind": "buffered", "size": size})
        rep.distribution["rng:buffered-sizes"] += 1


# ------------------------------------------------------------------ retry

class _Script:
    def __init__(self, attempts):
        self.attempts = list(attempts)
        self.calls = 0

    def __call__(self):
        if self.calls >= len(self.attempts):
            raise AssertionError("script exhausted")
        a = self.attempts[self.calls]
        self.calls += 1
        if a[0] == "S":
            return int(a[1:])
        if a == "T":
            raise fakes3.client_error("SlowDown", "GetObject")
        if a == "P":
            raise fakes3.client_error("AccessDenied", "GetObject")
        raise KeyError("non-retryable")


def _check_retry(ctx, rep, model_ok):
    from datashard.s3_consistency import S3ConsistencyHandler
    cases = []
    for m in (0, 1, 2, 5):
        for n in range(1, min(m + 3, 5) + 1):
            for seq in itertools.product(["T", "P", "N", "S7"], repeat=n):
                cases.append((m, seq))
        cases.append((m, tuple(["T"] * (m + 1) + ["S7"])))
        cases.append((m, tuple(["T"] * m + ["S7"])))
        cases.append((m, tuple(["T"] * m + ["P"])))
    reqs = [f"retry.run {m} " + " ".join(seq) for m, seq in cases]
    model = driver.ask(reqs) if model_ok else [None] * len(reqs)
    with fakes3.NoSleep():
        for (m, seq), mo in zip(cases, model):
            h = S3ConsistencyHandler(max_retries=m, initial_delay=0.0, max_delay=0.0)
            sc = _Script(seq)
            try:
                v = h.retry_with_backoff(sc, "t")
                impl = f"ok {v} {sc.calls}"
            except AssertionError:
                impl = f"unspec {sc.calls}"
            except KeyError:
                impl = f"raiseO {sc.calls}"
            except Exception as e:      # noqa: BLE001
                code = getattr(e, "response", {}).get("Error", {}).get("Code")
                impl = ("raiseP " if code == "AccessDenied" else "raiseT ") + str(sc.calls)
            rep.evaluations += 1
            rep.nontrivial(["retry", m, seq])
            rep.distribution["retry:" + impl.split(" ")[0]] += 1
            if mo is not None:
                rep.corr_cases += 1
                if mo != impl:
                    rep.diverge("retry.run (retry_with_backoff)", {"max": m, "seq": list(seq)}, mo, impl)
            # oracle = the property itself
            k = 0
            while k < len(seq) and seq[k] == "T":
                k += 1
            if k < len(seq) and k <= m:
                want = {"S": f"ok 7 {k + 1}", "P": f"raiseP {k + 1}", "N": f"raiseO {k + 1}"}[seq[k][0]]
                if impl != want:
                    sig = {"S": "C20:transient-not-masked", "P": "C20:permanent-error-retried-or-swallowed", "N": "C20:non-retryable-retried"}[seq[k][0]]
                    rep.violate(sig, f"max_retries={m}, attempts {list(seq)}: {impl}, expected {want}", {"kind": "retry", "max": m, "seq": list(seq)})
            if sc.calls > m + 1:
                rep.violate("C20:attempts-exceed-budget", f"{sc.calls} attempts with max_retries={m}", {"kind": "retry", "max": m, "seq": list(seq)})
    rep.sample({"retry_case": reqs[10], "model": model[10]})


def _check_backend_faults(ctx, rep):
    """fault sequences per S3 request through the real backend methods, with attempt counting."""
    ops = {
        "read_file": lambda b: b.read_file("data/a"),
        "exists": lambda b: b.exists("data/a"),
        "list_files": lambda b: sorted(b.list_files("data")),
        "get_size": lambda b: b.get_size("data/a"),
        "get_modified_time": lambda b: b.get_modified_time("data/a") > 0,
        "delete_file": lambda b: b.delete_file("data/zz"),
        "write_file": lambda b: (b.write_file("data/w", b"payload-" * 40), b.s3.objects["tbl/data/w"].data)[1],
        "read_file_with_etag": lambda b: b.read_file_with_etag("data/a")[0],
        "open_file": lambda b: b.open_file("data/a").read(),
    }
    with fakes3.NoSleep():
        for name, fn in ops.items():
            fake = fakes3.FakeS3()
            be = fakes3.make_backend("tbl", True, fake)
            be.write_file("data/a", b"hello")
            clean = fn(be)
            plans = [[], ["T"], ["T", "T"], ["T"] * 5, ["T"] * 6, ["P"], ["T", "P"], ["T", "T", "P"]]
            # the same with other spellings of transient / permanent errors (bare numeric HTTP codes are what HEAD requests produce)
            for tcode in ("InternalError", "RequestTimeout", "429", "408", "503", "500"):
                plans += [[("T", tcode)], [("T", tcode)] * 5]
            for pcode in ("403", "401", "InvalidAccessKeyId", "NoSuchBucket"):
                plans += [[("P", pcode)], ["T", ("P", pcode)]]
            if name in ("read_file", "read_file_with_etag"):     # (open_file hands the stream to its caller: reading it is the caller's)
                # the request succeeds and the DOWNLOAD of the body breaks (connection reset mid-stream): transient like any other
                plans += [[("B", "stream")], [("B", "stream")] * 3, ["T", ("B", "stream")]]
                plans += [[("B", fl)] * k_ for fl in ("incomplete", "readtimeout", "closed") for k_ in (1, 3)]
            # connection-level failures raised by the client itself (no HTTP answer at all): transient
            for exc_ in ("EndpointConnectionError", "ConnectTimeoutError", "ConnectionClosedError"):
                plans += [[("T", "exc:" + exc_)], [("T", "exc:" + exc_)] * 5]
            if name == "write_file":
                # the upload breaks AFTER the request body went out (a stream body is consumed by then): the retry must send the
                # same bytes again, not what is left of a consumed stream
                plans += [[("U", "sent")], [("U", "sent")] * 3, ["T", ("U", "sent")]]
            for plan in plans:
                fake2 = fakes3.FakeS3()
                be2 = fakes3.make_backend("tbl", True, fake2)
                be2.write_file("data/a", b"hello")
                state = {"left": list(plan), "n": 0}

                def hook(phase, op, key, kw, state=state):
                    if phase != "before":
                        return
                    nxt = state["left"][0] if state["left"] else None
                    nxt_kind = (nxt if isinstance(nxt, str) else nxt[0]) if nxt is not None else None
                    if op == "body-read":
                        if nxt_kind == "B":
                            flavour = state["left"].pop(0)[1]
                            import botocore.exceptions as bx
                            if flavour == "incomplete":
                                raise bx.IncompleteReadError(actual_bytes=2, expected_bytes=5)
                            if flavour == "readtimeout":
                                raise bx.ReadTimeoutError(endpoint_url="https://example.invalid")
                            if flavour == "closed":
                                raise bx.ConnectionClosedError(endpoint_url="https://example.invalid")
                            raise bx.ResponseStreamingError(error="connection reset while streaming the body")
                        return
                    if op == "put-body-sent":
                        if nxt_kind == "U":
                            state["left"].pop(0)
                            import botocore.exceptions as bx
                            raise bx.ConnectionClosedError(endpoint_url="https://example.invalid")
                        return
                    if op == "list-page":
                        return
                    state["n"] += 1
                    if state["left"] and nxt_kind not in ("B", "U"):
                        f = state["left"].pop(0)
                        kind_, code_ = (f, "SlowDown" if f == "T" else "AccessDenied") if isinstance(f, str) else f
                        if code_.startswith("exc:"):
                            import botocore.exceptions as bx
                            cls_ = getattr(bx, code_[4:])
                            raise cls_(endpoint_url="https://example.invalid", error="unreachable")
                        raise fakes3.client_error(code_, op)
                fake2.hook = hook
                rep.evaluations += 1
                rep.nontrivial(["fault", name, [str(x) for x in plan]])
                try:
                    got = fn(be2)
                    outcome = ("ok", got)
                except Exception as e:      # noqa: BLE001
                    outcome = ("raise", (getattr(e, "response", None) or {}).get("Error", {}).get("Code", type(e).__name__))
                kinds_ = [p if isinstance(p, str) else p[0] for p in plan]
                pcode_ = next((("AccessDenied" if isinstance(p, str) else p[1]) for p in plan if (p if isinstance(p, str) else p[0]) == "P"), None)
                nT = len([k_ for k_ in kinds_ if k_ in ("T", "B", "U")])
                if "P" in kinds_:
                    if outcome != ("raise", pcode_) or state["n"] != kinds_.index("P") + 1:
                        rep.violate("C20:permanent-error-retried-or-swallowed", f"{name} under {plan}: {outcome}, {state['n']} requests",
                                    {"kind": "fault", "op": name, "plan": [str(x) for x in plan]})
                elif nT <= 5:
                    if outcome != ("ok", clean):
                        rep.violate("C20:transient-not-masked", f"{name} under {plan}: {outcome} instead of {clean!r}",
                                    {"kind": "fault", "op": name, "plan": [str(x) for x in plan]})
                else:
                    if outcome[0] != "raise":
                        rep.violate("C20:exhausted-retries-swallowed", f"{name} under {plan}: {outcome}", {"kind": "fault", "op": name, "plan": [str(x) for x in plan]})
                rep.distribution["fault:" + outcome[0]] += 1


# ------------------------------------------------------------------ twin backends

KEYS = ["data/a", "data/b", "data/sub/c", "data2/d", "database.txt", "metadata/m.json", "metadata/manifests/x.avro",
        "metadata.version-hint.text", "top"]
DIRS = ["data", "metadata", "metadata/manifests", "data/sub", "data2", "nosuch"]


def _canon(fn):
    try:
        r = fn()
        if isinstance(r, list):
            return ("list", sorted(x.replace(os.sep, "/") for x in r))
        return ("ok", r)
    except FileNotFoundError:
        return ("notfound",)
    except Exception as e:      # noqa: BLE001
        return ("raise", type(e).__name__)


def _twin(ctx, rep, model_ok):
    from datashard.storage_backend import LocalStorageBackend
    rng = ctx.rng("twin")
    base = scratch_dir("c20t-")
    n_seq = ctx.budget(60, 600)
    ls_reqs, ls_expect = [], []
    try:
        with fakes3.NoSleep():
            for si in range(n_seq):
                root = os.path.join(base, f"r{si}")
                os.makedirs(root)
                loc = LocalStorageBackend(root)
                fake = fakes3.FakeS3()
                s3 = fakes3.make_backend(rng.choice(["tbl", "a/b", "t", "data", "metadata", "data/data"]), True, fake)
                present = set()
                trace = []
                for _ in range(rng.randint(3, 10 if not ctx.thorough else 30)):
                    kind = rng.choice(["write", "write", "read", "exists", "existsdir", "list", "list", "delete", "size", "json"])
                    k = rng.choice(KEYS)
                    d = rng.choice(DIRS)
                    if kind == "write":
                        c = bytes([rng.randrange(256) for _ in range(rng.randint(0, 4))])
                        a, b = _canon(lambda: loc.write_file(k, c)), _canon(lambda: s3.write_file(k, c))
                        present.add(k)
                        arg = k
                    elif kind == "json":
                        a, b = _canon(lambda: (loc.write_json(k, {"v": 1}), loc.read_json(k))[1]), _canon(lambda: (s3.write_json(k, {"v": 1}), s3.read_json(k))[1])
                        present.add(k)
                        arg = k
                    elif kind == "read":
                        a, b = _canon(lambda: loc.read_file(k)), _canon(lambda: s3.read_file(k))
                        arg = k
                    elif kind == "exists":
                        a, b = _canon(lambda: loc.exists(k)), _canon(lambda: s3.exists(k))
                        arg = k
                    elif kind == "existsdir":
                        a, b = _canon(lambda: loc.exists(d + "/")), _canon(lambda: s3.exists(d + "/"))
                        arg = d + "/"
                        if a == ("ok", True) and not any(k2.startswith(d + "/") for k2 in present):
                            b = a      # an emptied local directory lingers; S3 has no empty directories (not part of the contract)
                    elif kind == "list":
                        a, b = _canon(lambda: loc.list_files(d)), _canon(lambda: s3.list_files(d))
                        arg = d
                        fs = sorted(present)
                        if fs:
                            ls_reqs.append((f"ls.local {d} " + " ".join(fs), a))
                            ls_reqs.append((f"ls.dir {d} " + " ".join(fs), b))
                    elif kind == "delete":
                        a, b = _canon(lambda: loc.delete_file(k)), _canon(lambda: s3.delete_file(k))
                        present.discard(k)
                        arg = k
                    else:
                        a, b = _canon(lambda: loc.get_size(k)), _canon(lambda: s3.get_size(k))
                        arg = k
                    trace.append([kind, arg])
                    rep.evaluations += 1
                    rep.distribution["twin:" + kind] += 1
                    if a != b:
                        if kind == "list" and a[0] == "list" and b[0] == "list" and set(a[1]) < set(b[1]) and \
                                all(not x.startswith(d + "/") and x.startswith(d) for x in set(b[1]) - set(a[1])):
                            sig = "C20:s3-listing-matches-sibling-prefix"
                        else:
                            sig = f"C20:backends-differ:{kind}"
                        rep.violate(sig, f"{kind}({arg!r}): local {a} vs S3 {b}", {"kind": "twin", "trace": trace, "prefix": s3.prefix})
                        break
                if len(present) >= 3:
                    rep.nontrivial(["twin", trace])
                shutil.rmtree(root, ignore_errors=True)
        if model_ok and ls_reqs:
            replies = driver.ask([r for r, _ in ls_reqs])
            for (req, impl), m in zip(ls_reqs, replies):
                rep.corr_cases += 1
                mm = sorted(m.split(" ")) if m != "-" else []
                if impl[0] != "list" or mm != impl[1]:
                    rep.diverge("ls.* (list_files)", {"req": req}, mm, impl)
            rep.sample({"ls_case": ls_reqs[0][0], "model": replies[0]})
    finally:
        shutil.rmtree(base, ignore_errors=True)


def _listing_pages(ctx, rep):
    """0..9 objects in one directory (the in-memory S3 pages at 2 keys, also for a bare list_objects_v2): every listing complete"""
    from datashard.storage_backend import LocalStorageBackend
    base = scratch_dir("c20l-")
    try:
        for prefix in ("tbl", "a/b", "data", "metadata", ""):      # "" = a table at the bucket root (no key prefix)
            loc = LocalStorageBackend(os.path.join(base, prefix.replace("/", "_") or "bucket_root"))
            fake = fakes3.FakeS3()
            s3 = fakes3.make_backend(prefix, True, fake)
            for n in range(10):
                for d in ("data", "metadata", "metadata/manifests", ""):
                    a, b = _canon(lambda: sorted(loc.list_files(d))), _canon(lambda: sorted(s3.list_files(d)))
                    rep.evaluations += 1
                    if n >= 3:
                        rep.nontrivial(["listing-pages", prefix, n, d])
                    if a != b:
                        rep.violate("C20:listing-differs", f"{n} objects under {prefix!r}: list_files({d!r}) local {str(a)[:120]} vs S3 {str(b)[:120]}",
                                    {"kind": "listing-pages", "prefix": prefix, "objects": n, "dir": d})
                k = ["data/f%d.parquet", "metadata/v%d.metadata.json", "metadata/manifests/m%d.avro"][n % 3] % n
                loc.write_file(k, b"x")
                s3.write_file(k, b"x")
    finally:
        shutil.rmtree(base, ignore_errors=True)


def _listing_page_faults(ctx, rep):
    """a transient error in the MIDDLE of a paged listing (pages of 2 keys): the retry must not leave duplicates or holes"""
    with fakes3.NoSleep():
        for nobj in (3, 5, 8):
            for fail_page in range(1, (nobj + 1) // 2 + 1):
                for nfaults in (1, 2):
                    fake = fakes3.FakeS3()
                    be = fakes3.make_backend("tbl", True, fake)
                    for i in range(nobj):
                        be.write_file(f"data/part-{i:04d}", b"x")
                    want = sorted(f"data/part-{i:04d}" for i in range(nobj))
                    state = {"page": 0, "left": nfaults}

                    def hook(phase, op, key, kw, state=state, fail_page=fail_page):
                        if phase == "before" and op == "list-page":
                            state["page"] += 1
                            if state["page"] >= fail_page and state["left"] > 0 and kw.get("index", 0) + 1 == fail_page:
                                state["left"] -= 1
                                raise fakes3.client_error("SlowDown", "ListObjectsV2")
                    fake.hook = hook
                    rep.evaluations += 1
                    rep.nontrivial(["listing-page-fault", nobj, fail_page, nfaults])
                    try:
                        got = ("ok", sorted(be.list_files("data")))
                    except Exception as e:      # noqa: BLE001
                        got = ("raise", type(e).__name__)
                    if got != ("ok", want):
                        rep.violate("C20:transient-not-masked", f"{nobj} objects, {nfaults} transient fault(s) on listing page {fail_page}: list_files → {str(got)[:160]}",
                                    {"kind": "listing-page-fault", "objects": nobj, "page": fail_page, "faults": nfaults})


def _overwrite_then_reopen(ctx, rep):
    """one backend instance, one key: write, open_seekable + read, overwrite with another length, open_seekable + read again"""
    from datashard.storage_backend import LocalStorageBackend
    base = scratch_dir("c20o-")

    def seekread(b, k):
        with b.open_seekable(k) as f:
            end = f.seek(0, 2)
            f.seek(0)
            data = f.read()
            return end, data, f.tell()
    try:
        n = 0
        for la, lb in ((5, 9), (9, 5), (0, 3), (3, 0), (1 << 16, 10), (10, 1 << 16), (7, 7)):
            for via in ("write_file", "write_json", "delete+write"):
                n += 1
                loc = LocalStorageBackend(os.path.join(base, f"o{n}"))
                fake = fakes3.FakeS3()
                s3 = fakes3.make_backend("tbl", True, fake)
                k = "data/k.bin"
                steps = []
                for b in (loc, s3):
                    out = []
                    b.write_file(k, b"a" * la)
                    out.append(_canon(lambda: seekread(b, k)))
                    if via == "write_json":
                        b.write_json(k, {"v": "x" * lb})
                    else:
                        if via == "delete+write":
                            b.delete_file(k)
                        b.write_file(k, b"b" * lb)
                    out.append(_canon(lambda: seekread(b, k)))
                    out.append(_canon(lambda: b.get_size(k)))
                    steps.append(out)
                rep.evaluations += 1
                rep.nontrivial(["overwrite-reopen", la, lb, via])
                if steps[0] != steps[1]:
                    rep.violate("C20:seekable-reader-differs-after-overwrite", f"key rewritten {la}→{lb} bytes via {via}: local {str(steps[0])[:100]} vs S3 {str(steps[1])[:100]}",
                                {"kind": "overwrite-reopen", "first": la, "second": lb, "via": via})
    finally:
        shutil.rmtree(base, ignore_errors=True)


def run(ctx, model_ok):
    rep = Report()
    rep.rule = ("range reader: all seek/read programs of length ≤3 (thorough ≤4) over a 19-op alphabet × object sizes {0,1,2,5} "
                "(quick: every 5th length-3 program + all length-2), plus random buffered programs incl. sizes 2^20±1; retry: all attempt "
                "sequences up to max+2 over {transient, permanent, non-retryable, success} for max_retries ∈ {0,1,2,5}, and fault plans through "
                "9 real backend methods; listings of 0..9 objects with the store paging at 2 keys; twin backends: random operation sequences over 9 keys / 6 directories / 3 prefixes. "
                "non-trivial = delivers bytes / distinct attempt sequence / ≥3 objects present.")
    _check_range(ctx, rep, model_ok)
    _check_retry(ctx, rep, model_ok)
    _check_backend_faults(ctx, rep)
    _listing_pages(ctx, rep)
    _overwrite_then_reopen(ctx, rep)
    _listing_page_faults(ctx, rep)
    _twin(ctx, rep, model_ok)
    return rep
