"""C17 — no operation escapes the table root.

Theorems: DSV/Props/C17.lean over the path model DSV/Model/Path.lean (component-wise containment, lexical resolution; S3 keys literal
under the prefix). Correspondence: `_resolve_path`, `_get_arrow_path` and `_get_s3_key` vs the model on exhaustive path grammars.
Oracle: exhaustive path grammar × every storage / read entry point × {root reached directly, via a symlink} on a REAL temp
filesystem with symlinks inside the root pointing inside and outside; a Python audit hook records every open / listdir /
remove / rename / mkdir the interpreter performs, resolved with realpath: none may touch anything outside the canonical root;
a sentinel tree outside the root is fingerprinted (content, mtime, existence, directory mtimes) before and after each call.
"""
import hashlib
import itertools
import os
import shutil
import sys

from .. import driver, reader, tablekit
from ..report import Report
from ..util import enc, scratch_dir

ASSUMPTIONS = [
    "kernel path resolution matches os.path.realpath at the instant of the check (TOCTOU — a symlink swapped between check and use — is outside the quantifier)",
    "pyarrow is handed Python file objects for local reads, so the audit hook sees every open",
]

_AUDIT = {"on": False, "log": []}
_HOOKED = [False]


def _hook(event, args):
    if not _AUDIT["on"]:
        return
    try:
        if event == "open":
            p, mode, flags = args[0], args[1], args[2]
            if isinstance(p, (str, bytes)):
                _AUDIT["log"].append(("open", os.fsdecode(p), "w" if (flags & (os.O_WRONLY | os.O_RDWR | os.O_CREAT)) else "r"))
        elif event in ("os.listdir", "os.scandir"):
            _AUDIT["log"].append(("list", os.fsdecode(args[0]) if args[0] is not None else ".", "r"))
        elif event == "os.remove":
            _AUDIT["log"].append(("remove", os.fsdecode(args[0]), "w"))
        elif event == "os.rename":
            _AUDIT["log"].append(("rename", os.fsdecode(args[0]), "w"))
            _AUDIT["log"].append(("rename", os.fsdecode(args[1]), "w"))
        elif event in ("os.mkdir", "os.rmdir"):
            _AUDIT["log"].append((event[3:], os.fsdecode(args[0]), "w"))
    except Exception:       # noqa: BLE001
        pass


def _install():
    if not _HOOKED[0]:
        sys.addaudithook(_hook)
        _HOOKED[0] = True


def _layout(base):
    """S/outside (sentinels), S/root (table), S/root2 (sibling sharing the name as a string prefix), S/rootlink -> root"""
    S = os.path.join(base, "S")
    os.makedirs(os.path.join(S, "outside", "d"))
    for rel, c in (("outside/sentinel.txt", b"SENTINEL-1"), ("outside/d/deep.txt", b"SENTINEL-2"), ("outside/x.parquet", b"SENTINEL-3")):
        open(os.path.join(S, rel), "wb").write(c)
    t = tablekit.create(os.path.join(S, "root"))
    t.append_records(tablekit.rows(2))
    os.makedirs(os.path.join(S, "root2"))
    open(os.path.join(S, "root2", "f.txt"), "wb").write(b"SENTINEL-4")
    root = os.path.join(S, "root")
    os.symlink("../outside", os.path.join(root, "linkout"))                       # directory link pointing OUTSIDE
    os.symlink("data", os.path.join(root, "linkin"))                              # directory link pointing inside
    os.symlink("../../outside/sentinel.txt", os.path.join(root, "data", "flink"))  # file link pointing OUTSIDE
    open(os.path.join(root, "data", "x"), "wb").write(b"inside")
    os.symlink(root, os.path.join(S, "rootlink"))
    os.symlink("sentinel.txt", os.path.join(S, "outside", "current"))          # links that LIVE outside the root
    os.symlink("nowhere", os.path.join(S, "outside", "dangling"))
    os.makedirs(os.path.join(S, "outside", "data"))
    open(os.path.join(S, "outside", "data", "x"), "wb").write(b"SENTINEL-5")    # same tail as the table's own data/x
    return S


def _fingerprint(S):
    fp = {}
    for top in ("outside", "root2"):
        for r, ds, fs in os.walk(os.path.join(S, top)):
            st = os.stat(r)
            fp[r] = ("dir", st.st_mtime_ns, tuple(sorted(ds + fs)))
            for f in fs:
                p = os.path.join(r, f)
                if os.path.islink(p):
                    fp[p] = ("link", os.readlink(p))
                    continue
                st = os.stat(p)
                fp[p] = ("file", st.st_size, st.st_mtime_ns, hashlib.sha1(open(p, "rb").read()).hexdigest())
    st = os.stat(S)
    fp[S] = ("dir", st.st_mtime_ns, tuple(sorted(os.listdir(S))))
    return fp


COMPONENTS = ["..", ".", "", "data", "x", "linkout", "linkin", "flink", "sentinel.txt", "root2", "outside", "metadata"]


def _paths(ctx, S):
    depth = 3 if not ctx.thorough else 4
    out = []
    for n in range(0, depth + 1):
        for combo in itertools.product(COMPONENTS, repeat=n):
            if n == depth and not ctx.thorough and (sum(map(len, combo)) + len(combo[0])) % 6:
                continue            # quick: a sixth of the deepest level (deterministic)
            rel = "/".join(combo)
            out.append(rel)
            out.append("/" + rel)
    out += [os.path.join(S, "outside", "sentinel.txt"), os.path.join(S, "root2", "f.txt"), os.path.join(S, "root", "data", "x"),
            os.path.join(S, "root") + "2/f.txt", os.path.join(S, "rootlink", "data", "x"), os.path.join(S, "rootlink", "..", "outside", "sentinel.txt"),
            "/etc/passwd", "//etc/passwd", "\x00", "data/\x00x",
            # links that live OUTSIDE, reached by escaping spellings
            "../outside/current", "/../outside/current", "linkout/current", "data/../../outside/dangling", "linkout/dangling",
            # true absolute paths outside the root whose TAIL names something that exists inside the table
            os.path.join(S, "outside", "data", "x"), "/nonexistent/elsewhere/data/x", os.path.join(S, "root2", "data", "x"),
            "/mnt/backup/metadata/" + "version-hint.text", os.path.join(S, "outside", "metadata", "manifests"),
            # '<symlink>/..' spellings: for the operating system the link is followed FIRST (these name S/data/x, S/x: outside)
            "linkout/../data/x", "/linkout/../data/x", "linkout/../x", "data/../linkout/../data/x", "linkout/d/../../data/x", "linkout/./../metadata",
            # true absolute paths that are LEXICALLY inside the root but pass through a symlink leading out
            os.path.join(S, "root", "linkout", "sentinel.txt"), os.path.join(S, "root", "linkout", "x.parquet"), os.path.join(S, "root", "data", "flink"),
            os.path.join(S, "root", "linkout", "d", "deep.txt"), os.path.join(S, "rootlink", "linkout", "sentinel.txt")]
    seen, res = set(), []
    for p in out:
        if p not in seen:
            seen.add(p)
            res.append(p)
    return res


def _lock_once(lp):
    """take and drop the lock without waiting (creating the lock file is what touches the filesystem)"""
    fl = getattr(lp, "lock", lp)
    try:
        if fl.acquire(blocking=False):
            fl.release()
    finally:
        pass


def _entry_points(t):
    from datashard.data_structures import DataFile, FileFormat
    st, dfm, fm = t.storage, t.file_manager.data_file_manager, t.file_manager
    eps = {
        "read_file": lambda p: st.read_file(p),
        "open_file": lambda p: st.open_file(p).close(),
        "open_seekable": lambda p: st.open_seekable(p).close(),
        "exists": lambda p: st.exists(p),
        "list_files": lambda p: st.list_files(p),
        "get_size": lambda p: st.get_size(p),
        "get_modified_time": lambda p: st.get_modified_time(p),
        "read_json": lambda p: st.read_json(p),
        "arrow_path": lambda p: dfm._get_arrow_path(p),
        "open_parquet_source": lambda p: dfm.open_parquet_source(p).close(),
        "read_data_file": lambda p: dfm.read_data_file(p),
        "validate_file_exists": lambda p: fm.validate_file_exists(p),
        "read_manifest_file": lambda p: fm.read_manifest_file(p),
        "read_manifest_list_file": lambda p: fm.read_manifest_list_file(p),
        "append_files": lambda p: t.new_transaction().begin().append_files([DataFile(file_path=p, file_format=FileFormat.PARQUET, partition_values={}, record_count=1, file_size_in_bytes=1)]),
    }
    mutating = {
        "write_file": lambda p: st.write_file(p, b"W"),
        "write_json": lambda p: st.write_json(p, {"a": 1}),
        "delete_file": lambda p: st.delete_file(p),
        "makedirs": lambda p: st.makedirs(p),
        "create_lock": lambda p: _lock_once(st.create_lock(p)),
        "write_data_file": lambda p: dfm.write_data_file(p, tablekit.rows(1, start=4242), tablekit.schema()),
    }
    return eps, mutating


def _judge(rep, S, root_real, ep, p, via, fp_before, outcome, exc, check_fp=True):
    log, _AUDIT["log"] = _AUDIT["log"], []
    touched = []
    for kind, path, mode in log:
        try:
            rp = os.path.realpath(path)
        except Exception:       # noqa: BLE001
            continue
        if rp.startswith(S + os.sep) or rp == S:
            if kind == "mkdir" and (root_real == rp or root_real.startswith(rp + os.sep)):
                continue        # makedirs(exist_ok) walking over an ANCESTOR of the root: it exists, nothing is created
            if not (rp == root_real or rp.startswith(root_real + os.sep)):
                touched.append((kind, os.path.relpath(rp, S), mode))
    case = {"kind": "path", "entry_point": ep, "path": p, "root_via": via}
    if touched:
        wrote = [x for x in touched if x[2] == "w"]
        if ep in ("write_file", "write_json") and all(os.path.dirname(x[1]) in ("", ".") for x in touched) and any(".tmp." in x[1] for x in touched):
            sig = "C17:write-to-root-itself-creates-temp-file-in-parent"
        else:
            sig = f"C17:{'write' if wrote else 'read'}-outside-root:{ep}"
        rep.violate(sig, f"{ep}({p!r}) via {via}: touched {touched[:3]} outside the canonical root ({outcome})", case)
    if not check_fp:
        if outcome == "ok" and isinstance(exc, (bytes, str)) and b"SENTINEL" in (exc if isinstance(exc, bytes) else exc.encode()):
            rep.violate(f"C17:sentinel-content-returned:{ep}", f"{ep}({p!r}) via {via} returned content of a file outside the root", case)
        return fp_before
    fp_after = _fingerprint(S)
    if fp_after != fp_before:
        diff = [k for k in set(fp_before) | set(fp_after) if fp_before.get(k) != fp_after.get(k)]
        if not touched:
            rep.violate(f"C17:sentinel-changed:{ep}", f"{ep}({p!r}) via {via}: outside tree changed: {[os.path.relpath(d, S) for d in diff][:3]}", case)
        return fp_after
    if outcome == "ok" and isinstance(exc, (bytes, str)) and b"SENTINEL" in (exc if isinstance(exc, bytes) else exc.encode()):
        rep.violate(f"C17:sentinel-content-returned:{ep}", f"{ep}({p!r}) via {via} returned content of a file outside the root", case)
    return fp_before


def _escaping(rep, S, root_real, ep, p, via, outcome, val):
    """the property's last clause: a path that FOR THE OPERATING SYSTEM names something outside the root (symlinks followed in
    order, then '..') must be rejected — not answered as if it named something else. Decided by realpath, independently of the
    library's resolver. Table-relative spellings only (absolute ones have their own clause above)."""
    if outcome != "ok" or "\x00" in p or ep in ("append_files", "create_lock", "makedirs"):
        return
    rel = p.lstrip("/")
    if os.path.isabs(p) and (p.startswith(S + os.sep) or p.startswith("/etc") or p.startswith("/mnt") or p.startswith("/nonexistent")):
        return
    rp = os.path.realpath(os.path.join(root_real, rel))
    if rp == root_real or rp.startswith(root_real + os.sep):
        return
    if ep == "exists" and val is False:
        return
    if ep == "list_files" and val == []:
        return
    if ep == "validate_file_exists" and val is False:
        return
    rep.violate(f"C17:escaping-path-accepted:{ep}", f"{ep}({p!r}) via {via}: for the operating system this path names {os.path.relpath(rp, S)!r}, outside the root, "
                f"yet the call succeeded ({str(val)[:50]!r}) instead of being rejected", {"kind": "path", "entry_point": ep, "path": p, "root_via": via})


def _s3_keys(ctx, rep, model_ok=False):
    """S3 backend: two tables share a bucket; every request the REAL backend makes for table 'wh/orders' must name a key (or list
    prefix) under 'wh/orders/', nothing outside may change, no outside content may be returned — for an exhaustive grammar of
    table-relative spellings"""
    from .. import fakes3
    fake = fakes3.FakeS3()
    be = fakes3.make_backend("wh/orders", fake=fake)
    outside = {"wh/customers/data/x": b"SENTINEL-C", "wh/customers/x": b"SENTINEL-D", "wh/x": b"SENTINEL-E", "x": b"SENTINEL-F",
               "other/data/x": b"SENTINEL-G", "wh/orders2/data/x": b"SENTINEL-H", "data/x": b"SENTINEL-I"}
    inside = {"wh/orders/data/x": b"inside", "wh/orders/metadata/version-hint.text": b"1"}
    comps = ["..", ".", "", "data", "x", "customers", "wh", "orders"]
    paths = []
    for n in range(0, 5 if ctx.thorough else 4):
        for combo in itertools.product(comps, repeat=n):
            rel = "/".join(combo)
            paths += [rel, "/" + rel]
    paths += ["s3://bkt/wh/customers/x", "s3a://bkt/wh/customers/data/x", "s3n://bkt/other/data/x", "s3://bkt/x", "s3://elsewhere/wh/orders/data/x",
              "s3://bkt/wh/orders/../customers/x", "https://example.invalid/bkt/wh/customers/x", "bkt/wh/customers/x", "wh/customers/x"]
    paths = list(dict.fromkeys(paths))
    if model_ok:
        from ..util import dec
        for pref in ("wh/orders", ""):
            be_ = fakes3.make_backend(pref, fake=fake)
            reqs = [f"path.s3key {enc(pref)} {enc(p_)}" for p_ in paths]
            for p_, m_ in zip(paths, driver.ask(reqs)):
                rep.corr_cases += 1
                try:
                    impl_ = be_._get_s3_key(p_)
                except Exception as e_:      # noqa: BLE001
                    impl_ = f"raise {type(e_).__name__}"
                if dec(m_) != impl_:
                    rep.diverge("path.s3key (_get_s3_key)", {"prefix": pref, "path": p_}, dec(m_), impl_)
    seen = []
    fake.hook = lambda phase, op, key, kw: seen.append((op, key)) if phase == "before" else None
    calls = {
        "read_file": lambda p: be.read_file(p), "open_file": lambda p: be.open_file(p).read(), "exists": lambda p: be.exists(p),
        "get_size": lambda p: be.get_size(p), "list_files": lambda p: be.list_files(p), "get_modified_time": lambda p: be.get_modified_time(p),
        "read_file_with_etag": lambda p: be.read_file_with_etag(p), "open_seekable": lambda p: be.open_seekable(p).read(),
        "write_file": lambda p: be.write_file(p, b"W"), "delete_file": lambda p: be.delete_file(p),
        "write_file_cas": lambda p: be.write_file_cas(p, b"W", None),
    }
    with fakes3.NoSleep():
        for name, fn in calls.items():
            if not hasattr(be, name):
                continue
            for p in paths:
                fake.objects.clear()
                for k_, v_ in {**outside, **inside}.items():
                    fake._put(k_, v_)
                del seen[:]
                try:
                    r = fn(p)
                    outcome = "ok"
                except Exception as e:      # noqa: BLE001
                    r, outcome = None, "raise:" + type(e).__name__
                rep.evaluations += 1
                rep.distribution[f"s3:{name}:{outcome.split(':')[0]}"] += 1
                if outcome == "ok":
                    rep.nontrivial(["c17-s3", name, p])
                case = {"kind": "s3-path", "entry_point": name, "path": p, "prefix": "wh/orders"}
                bad = [(op, k_) for op, k_ in seen if isinstance(k_, str) and not (k_.startswith("wh/orders/") or k_ == "wh/orders")]
                changed = [k_ for k_, v_ in outside.items() if k_ not in fake.objects or fake.objects[k_].data != v_]
                leaked = isinstance(r, (bytes, tuple, list)) and b"SENTINEL" in (r if isinstance(r, bytes) else repr(r).encode())
                if bad or changed or leaked:
                    rep.violate(f"C17:{'write' if name in ('write_file', 'delete_file', 'write_file_cas') else 'read'}-outside-root:s3:{name}",
                                f"S3 {name}({p!r}) for the table under 'wh/orders': requests {bad[:2]}, objects changed {changed[:2]}, outside content returned: {leaked} ({outcome})", case)


def _oracle(ctx, rep, base):
    _install()
    S = _layout(base)
    root_real = os.path.realpath(os.path.join(S, "root"))
    paths = _paths(ctx, S)
    snap = os.path.join(base, "S.snap")
    for via in ("root", "rootlink"):
        t = tablekit.load(os.path.join(S, via))
        ro, mut = _entry_points(t)
        fp = _fingerprint(S)
        for ep, fn in ro.items():
            for p in paths:
                rep.evaluations += 1
                _AUDIT["log"], _AUDIT["on"] = [], True
                try:
                    r = fn(p)
                    outcome, val = "ok", r
                except Exception as e:      # noqa: BLE001
                    outcome, val = "raise:" + type(e).__name__, None
                finally:
                    _AUDIT["on"] = False
                rep.distribution[f"{ep}:{outcome.split(':')[0]}"] += 1
                if outcome == "ok":
                    rep.nontrivial(["c17", ep, p, via])
                if outcome == "ok" and ep in ("arrow_path", "open_parquet_source", "read_data_file") and os.path.isabs(p) and "\x00" not in p:
                    first = [c_ for c_ in p.split("/") if c_][:1]
                    rp_ = os.path.realpath(p)
                    if first not in (["data"], ["metadata"]) and not (rp_ == root_real or rp_.startswith(root_real + os.sep)):
                        rep.violate(f"C17:outside-path-silently-resolved:{ep}", f"{ep}({p!r}) via {via}: a true absolute path outside the root was accepted "
                                    f"({str(val)[:60]!r}) instead of rejected", {"kind": "path", "entry_point": ep, "path": p, "root_via": via})
                _escaping(rep, S, root_real, ep, p, via, outcome, val)
                fp = _judge(rep, S, root_real, ep, p, via, fp, outcome, val, check_fp=False)
            fp2 = _fingerprint(S)
            if fp2 != fp:
                rep.violate(f"C17:sentinel-changed:{ep}", f"{ep} (read-only entry point) via {via}: the tree outside the root changed during its batch",
                            {"kind": "path", "entry_point": ep, "root_via": via})
                fp = fp2
        # mutating entry points: restore the layout after each batch of one path (cheap: only when something inside changed)
        mpaths = paths if ctx.thorough else [p for i, p in enumerate(paths) if i % 4 == 0 or len(p) < 12]
        for ep, fn in mut.items():
            # (a parquet write per path: the thorough tier takes every path shorter than 14 characters and every 6th of the rest)
            for p in (mpaths if ep != "write_data_file" or not ctx.thorough else [p_ for i_, p_ in enumerate(mpaths) if len(p_) < 14 or i_ % 6 == 0]):
                rep.evaluations += 1
                _AUDIT["log"], _AUDIT["on"] = [], True
                try:
                    fn(p)
                    outcome = "ok"
                except Exception as e:      # noqa: BLE001
                    outcome = "raise:" + type(e).__name__
                finally:
                    _AUDIT["on"] = False
                rep.distribution[f"{ep}:{outcome.split(':')[0]}"] += 1
                if outcome == "ok":
                    rep.nontrivial(["c17", ep, p, via])
                _escaping(rep, S, root_real, ep, p, via, outcome, None)
                fp = _judge(rep, S, root_real, ep, p, via, fp, outcome, None)
                # keep the inside of the root usable for the next call
                for rel in ("data/x",):
                    fpth = os.path.join(S, "root", rel)
                    if not os.path.isfile(fpth) or os.path.islink(fpth):
                        try:
                            if os.path.isdir(fpth) and not os.path.islink(fpth):
                                shutil.rmtree(fpth)
                            open(fpth, "wb").write(b"inside")
                        except OSError:
                            pass
                for lk, tgt in (("linkout", "../outside"), ("linkin", "data")):
                    lp = os.path.join(S, "root", lk)
                    if not os.path.islink(lp):
                        try:
                            if os.path.isdir(lp):
                                shutil.rmtree(lp)
                            elif os.path.exists(lp):
                                os.remove(lp)
                            os.symlink(tgt, lp)
                        except OSError:
                            pass
                fl = os.path.join(S, "root", "data", "flink")
                if not os.path.islink(fl):
                    try:
                        if os.path.exists(fl):
                            os.remove(fl)
                        os.symlink("../../outside/sentinel.txt", fl)
                    except OSError:
                        pass
                fp = _fingerprint(S)
        for lk in t.__dict__.get("_locks", []):
            pass


def _stateful(ctx, rep, base):
    """(1) the SAME backend instance, the same path string: first an ordinary file / directory inside the root, later a symlink
    leading out; (2) scans of a table whose manifest entry was tampered to name an absolute path outside the root, with a valid
    checksum of that outside file (and without one)"""
    import fastavro
    import pyarrow as pa
    import pyarrow.parquet as pq
    from datashard.storage_backend import LocalStorageBackend
    _install()
    S = os.path.join(base, "T")
    os.makedirs(os.path.join(S, "outside", "d"))
    open(os.path.join(S, "outside", "sentinel.txt"), "wb").write(b"SENTINEL-1")
    open(os.path.join(S, "outside", "d", "deep.txt"), "wb").write(b"SENTINEL-2")
    root = os.path.join(S, "root")
    t = tablekit.create(root)
    t.append_records(tablekit.rows(2))
    root_real = os.path.realpath(root)
    # ---- (1)
    be = LocalStorageBackend(root)
    os.makedirs(os.path.join(root, "data", "sub"))
    open(os.path.join(root, "data", "swap.bin"), "wb").write(b"inside")
    open(os.path.join(root, "data", "sub", "deep.txt"), "wb").write(b"inside")
    calls = {
        "read_file": lambda p: be.read_file(p), "open_file": lambda p: be.open_file(p).close(), "get_size": lambda p: be.get_size(p),
        "exists": lambda p: be.exists(p), "write_file": lambda p: be.write_file(p, b"W"), "delete_file": lambda p: be.delete_file(p),
        "open_seekable": lambda p: be.open_seekable(p).close(),
    }
    for p in ("data/swap.bin", "data/sub/deep.txt"):
        for fn in ("read_file", "get_size", "exists", "open_file"):
            calls[fn](p)                        # first use: an ordinary file inside the root
    os.remove(os.path.join(root, "data", "swap.bin"))
    os.symlink(os.path.join(S, "outside", "sentinel.txt"), os.path.join(root, "data", "swap.bin"))
    shutil.rmtree(os.path.join(root, "data", "sub"))
    os.symlink(os.path.join(S, "outside", "d"), os.path.join(root, "data", "sub"))
    for p in ("data/swap.bin", "data/sub/deep.txt"):
        for name, fn in calls.items():
            before = {f_: open(os.path.join(S, "outside", f_), "rb").read() for f_ in ("sentinel.txt", "d/deep.txt") if os.path.exists(os.path.join(S, "outside", f_))}
            _AUDIT["log"], _AUDIT["on"] = [], True
            try:
                r = fn(p)
                outcome = "ok"
            except Exception as e:      # noqa: BLE001
                r, outcome = None, "raise:" + type(e).__name__
            finally:
                _AUDIT["on"] = False
            rep.evaluations += 1
            rep.nontrivial(["c17-relinked", name, p])
            case = {"kind": "path-relinked-after-first-use", "entry_point": name, "path": p}
            log, _AUDIT["log"] = _AUDIT["log"], []
            out_touch = [(k_, os.path.relpath(os.path.realpath(pp), S)) for k_, pp, _m in log
                         if os.path.realpath(pp).startswith(os.path.join(S, "outside"))]
            after = {f_: (open(os.path.join(S, "outside", f_), "rb").read() if os.path.exists(os.path.join(S, "outside", f_)) else None) for f_ in before}
            if out_touch or after != before or (isinstance(r, bytes) and b"SENTINEL" in r) or (name == "exists" and r is True) or (name == "get_size" and outcome == "ok"):
                rep.violate(f"C17:{'write' if name in ('write_file', 'delete_file') else 'read'}-outside-root:{name}",
                            f"{name}({p!r}) through a backend that had used this path while it was inside the root; it now leads out: {outcome}, touched {out_touch[:2]}", case)
    # ---- (1b) a bare backend whose root holds nothing but the files being deleted: removing the last one must leave the root's
    # ancestors (and siblings) alone
    bare = os.path.join(S, "bare", "wh", "tbl")
    os.makedirs(os.path.join(bare, "data", "p=1"))
    for fn_ in ("data/p=1/a.bin", "data/p=1/b.bin"):
        open(os.path.join(bare, fn_), "wb").write(b"x")
    bb = LocalStorageBackend(bare)
    for fn_ in ("data/p=1/a.bin", "data/p=1/b.bin"):
        try:
            bb.delete_file(fn_)
        except Exception:       # noqa: BLE001
            pass
        rep.evaluations += 1
        rep.nontrivial(["c17-bare-delete", fn_])
        gone = [d_ for d_ in (os.path.join(S, "bare", "wh"), os.path.join(S, "bare")) if not os.path.isdir(d_)]
        if gone:
            rep.violate("C17:write-outside-root:delete_file", f"delete_file({fn_!r}) on a root holding nothing else removed {[os.path.relpath(g_, S) for g_ in gone]} "
                        f"(directories OUTSIDE the table root)", {"kind": "delete-last-entry", "path": fn_})
            break
    # ---- (2)
    sch = t.file_manager.data_file_manager.create_arrow_schema(tablekit.schema())
    outp = os.path.join(S, "outside", "evil.parquet")
    pq.write_table(pa.table({"id": [666], "name": ["outside-row"]}, schema=sch), outp)
    import hashlib as _h
    digest = _h.sha256(open(outp, "rb").read()).hexdigest()
    v = reader.view(root)
    cur = [s_ for s_ in v["snaps"] if s_["id"] == v["cur"]][0]
    mrel = cur["manifests"][0]
    mfull = os.path.join(root, mrel)
    with open(mfull, "rb") as f:
        rd = fastavro.reader(f)
        wschema = rd.writer_schema
        recs = list(rd)
    snapdir = root + ".snap"
    shutil.copytree(root, snapdir, symlinks=True)
    for with_checksum in (True, False):
        shutil.rmtree(root)
        shutil.copytree(snapdir, root, symlinks=True)
        recs2 = [dict(r_, data_file=dict(r_["data_file"])) for r_ in recs]
        df = recs2[0]["data_file"]
        df["file_path"] = outp
        for key in list(df):
            if "checksum" in key:
                df[key] = digest if with_checksum else None
        with open(mfull, "wb") as f:
            fastavro.writer(f, wschema, recs2)
        for api in ("scan", "scan_nochecksum", "scan_batches", "iter_records", "scan_parallel"):
            h = tablekit.load(root)
            _AUDIT["log"], _AUDIT["on"] = [], True
            try:
                if api == "scan":
                    rows = h.scan()
                elif api == "scan_nochecksum":
                    rows = h.scan(verify_checksums=False)
                elif api == "scan_parallel":
                    rows = h.scan(parallel=2)
                elif api == "scan_batches":
                    rows = [r_ for b_ in h.scan_batches(batch_size=10) for r_ in b_]
                else:
                    rows = list(h.iter_records())
                outcome = "ok"
            except Exception as e:      # noqa: BLE001
                rows, outcome = [], "raise:" + type(e).__name__
            finally:
                _AUDIT["on"] = False
            rep.evaluations += 1
            rep.nontrivial(["c17-tampered", api, with_checksum])
            log, _AUDIT["log"] = _AUDIT["log"], []
            opened = [pp for k_, pp, _m in log if k_ == "open" and os.path.realpath(pp) == os.path.realpath(outp)]
            case = {"kind": "tampered-manifest-entry", "api": api, "entry_has_checksum": with_checksum}
            if opened or any(r_.get("name") == "outside-row" for r_ in rows):
                rep.violate(f"C17:read-outside-root:{api}", f"{api} of a table whose manifest entry names {outp!r} "
                            f"({'with' if with_checksum else 'without'} a checksum): the outside file was {'opened' if opened else 'returned'} ({outcome})", case)
    shutil.rmtree(S, ignore_errors=True)


def _correspond(ctx, rep, base, model_ok):
    """`_resolve_path` on a symlink-free root vs the lexical model"""
    from datashard.storage_backend import LocalStorageBackend
    root = os.path.realpath(os.path.join(base, "plain", "wh"))
    os.makedirs(os.path.join(root, "data"))
    st = LocalStorageBackend(root)
    comps = ["..", ".", "", "data", "x", "wh", "wh2"]
    paths = []
    for n in range(0, 5 if ctx.thorough else 4):
        for combo in itertools.product(comps, repeat=n):
            rel = "/".join(combo)
            paths += [rel, "/" + rel]
    paths = list(dict.fromkeys(paths))
    reqs = [f"path.resolve {enc(root)} {enc(p)}" for p in paths]
    model = driver.ask(reqs) if model_ok else [None] * len(reqs)
    for p, m in zip(paths, model):
        try:
            impl = "ok " + enc(st._resolve_path(p))
        except ValueError:
            impl = "raise"
        rep.corr_cases += 1
        if m is not None:
            from ..util import dec
            mm = m if m == "raise" else "ok " + enc(dec(m[3:]))
            if mm != impl:
                rep.diverge("path.resolve (_resolve_path, symlink-free)", {"base": root, "path": p}, m, impl)
    rep.sample({"resolve_case": reqs[5], "model": model[5]})
    # ---- the read path's second entry (`_get_arrow_path`): table-relative spellings AND true absolute paths
    from datashard import create_table
    from .. import tablekit
    t = create_table(os.path.join(root, "tbl"), tablekit.schema())
    troot = os.path.realpath(os.path.join(root, "tbl"))
    dfm = t.file_manager.data_file_manager
    apaths = list(paths[:: 3 if not ctx.thorough else 1])
    parent = os.path.dirname(troot)
    for tail in ["", "/data", "/data/x", "/x", "/../x", "/./data", "//data", "/data/../../x", "/metadata/..", "/data/../.."]:
        apaths += [troot + tail, troot + "2" + tail, parent + tail, "/etc" + tail, "/" + tail.lstrip("/")]
    apaths = list(dict.fromkeys(apaths))
    reqs = [f"path.arrow {enc(troot)} {enc(p)}" for p in apaths]
    model = driver.ask(reqs) if model_ok else [None] * len(reqs)
    for p, m in zip(apaths, model):
        try:
            impl = "ok " + enc(dfm._get_arrow_path(p))
        except ValueError:
            impl = "raise"
        rep.corr_cases += 1
        if m is not None:
            from ..util import dec
            mm = m if m == "raise" else "ok " + enc(dec(m[3:]))
            if mm != impl:
                rep.diverge("path.arrow (_get_arrow_path, symlink-free)", {"base": troot, "path": p}, m, impl)


def run(ctx, model_ok):
    rep = Report()
    rep.rule = ("exhaustive path grammar: components {.., ., '', data, x, linkout(→outside dir), linkin(→inside dir), flink(→outside file), "
                "sentinel.txt, root2, outside, metadata} to depth 3 (thorough 4; quick takes a sixth of the deepest level), with and without "
                "leading '/', plus true absolute paths inside / outside / sibling-prefix / through the root symlink, NUL × 15 read entry points "
                "(+5 mutating ones on a subset) × root reached directly / via symlink; audit hook + sentinel fingerprint. non-trivial = call succeeded.")
    base = scratch_dir("c17-")
    try:
        _correspond(ctx, rep, base, model_ok)
        _oracle(ctx, rep, base)
        _stateful(ctx, rep, base)
        _s3_keys(ctx, rep, model_ok)
        rep.exhaustive = True
    finally:
        _AUDIT["on"] = False
        shutil.rmtree(base, ignore_errors=True)
    return rep
