"""C11 — accepted appends are exact; rejected ones leave no trace; scans keep working.

Theorems: DSV/Props/C11.lean over DSV/Model/Append.lean (schema-argument acceptance, record validation, coercion table).
Correspondence: the acceptance of every (column type, value class) pair and of every schema-argument variant is measured on
the real library each run and compared with the model's tables.
Oracle: all column types × value classes × schema-argument variants × fresh / reused handles over multi-append histories:
an append either raises and leaves snapshots, rows and reachable files unchanged, or succeeds and every row comes back
exactly as supplied up to the declared type's representation, for fresh handles too, with filtered scans on every column
returning exactly the matching rows.
"""
import datetime as dt
import decimal
import math
import os
import shutil
import struct

from .. import driver, reader, tablekit
from ..report import Report
from ..util import enc, scratch_dir

ASSUMPTIONS = [
    "a timezone-aware datetime stored in the (naive, UTC) timestamp type keeps its instant: that is the type's representation (DESIGN §7)",
    "lossless changes of Python type (bytes↔str for text, int→float when exactly representable, bool→1.0) count as representation",
]

UTC = dt.timezone.utc
VALUES = {
    "boolean": [("true", True), ("false", False), ("int1", 1), ("str", "true"), ("float1", 1.0)],
    "int": [("zero", 0), ("neg", -1), ("max", 2**31 - 1), ("min", -2**31), ("over", 2**31), ("float-integral", 1.0), ("float-fractional", 1.5),
            ("bool", True), ("str", "5"), ("nan", float("nan")), ("huge", 2**63)],
    "long": [("max", 2**63 - 1), ("min", -2**63), ("over", 2**63), ("float-integral", 2.0**53), ("float-fractional", 1.5), ("float-neg-fractional", -0.5),
             ("bool", True), ("str", "7"), ("decimal-integral", decimal.Decimal(3)), ("decimal-fractional", decimal.Decimal("3.5")), ("inf", float("inf"))],
    "float": [("half", 0.5), ("tenth", 0.1), ("overflow", 1e39), ("neg-overflow", -1e39), ("inf", float("inf")), ("nan", float("nan")), ("int", 1),
              ("bool", True), ("str", "0.5"), ("int-not-f32", 2**24 + 1), ("negzero", -0.0), ("subnormal", 1e-45), ("max", 3.4028234663852886e38),
              ("near-overflow", 3.4028236e38)],
    "double": [("tenth", 0.1), ("big", 1e308), ("inf", float("inf")), ("nan", float("nan")), ("subnormal", 5e-324), ("int", 1),
               ("int-not-f64", 2**53 + 1), ("bool", True), ("str", "1.5"), ("negzero", -0.0)],
    "string": [("ascii", "a"), ("empty", ""), ("unicode", "naïve ✓ 名"), ("nul", "\x00"), ("int", 5), ("float", 1.5), ("bool", True), ("bytes", b"bytes"),
               ("bytes-invalid-utf8", b"\xff\xfe"), ("long", "https://example.org/items/0001-abcdefgh")],
    "date": [("date", dt.date(2020, 1, 1)), ("datetime-midnight", dt.datetime(2020, 1, 1)), ("datetime-with-time", dt.datetime(2020, 1, 1, 12, 30)),
             ("str", "2020-01-01"), ("int", 18262)],
    "timestamp": [("naive", dt.datetime(2020, 1, 1, 12, 30, 15, 123456)), ("aware-utc", dt.datetime(2020, 1, 1, tzinfo=UTC)),
                  ("aware-offset", dt.datetime(2020, 1, 1, 1, tzinfo=dt.timezone(dt.timedelta(hours=5)))), ("date", dt.date(2020, 1, 1)),
                  ("str", "2020-01-01T00:00:00"), ("min", dt.datetime(1, 1, 1)), ("max", dt.datetime(9999, 12, 31, 23, 59, 59, 999999))],
    "time": [("time", dt.time(12, 30, 15, 250000)), ("midnight", dt.time(0, 0)), ("str", "12:30"), ("datetime", dt.datetime(2020, 1, 1, 12, 30))],
    "binary": [("bytes", b"ab"), ("empty", b""), ("str", "str"), ("bytearray", bytearray(b"x")), ("int", 5)],
    "uuid": [("uuid", "550e8400-e29b-41d4-a716-446655440000"), ("int", 5)],
}


def _f32(x):
    try:
        return struct.unpack("f", struct.pack("f", x))[0]
    except OverflowError:
        return math.copysign(float("inf"), x)


def represents(ty, v, got):
    """does `got` faithfully represent the supplied `v` in column type `ty`?"""
    if v is None:
        return got is None
    isnan = lambda x: isinstance(x, float) and math.isnan(x)
    try:
        if ty == "boolean":
            return isinstance(v, bool) and got is v
        if ty in ("int", "long"):
            if isinstance(v, bool):
                return False
            if isinstance(v, (float, decimal.Decimal)) and (not math.isfinite(float(v)) or v != int(v)):
                return False
            return isinstance(got, int) and got == v
        if ty == "float":
            if isinstance(v, str):
                return False
            if isnan(v):
                return isnan(got)
            if math.isfinite(float(v)) and math.isinf(_f32(float(v))):
                return False
            return got == _f32(float(v)) and math.copysign(1, got) == math.copysign(1, float(v))
        if ty == "double":
            if isinstance(v, str):
                return False
            if isnan(v):
                return isnan(got)
            return got == float(v) and (not isinstance(v, int) or int(got) == v)
        if ty in ("string", "uuid"):
            return got == (v if isinstance(v, str) else v.decode("utf-8"))
        if ty == "binary":
            return got == (bytes(v) if not isinstance(v, str) else v.encode("utf-8"))
        if ty == "date":
            if isinstance(v, dt.datetime):
                return (v.hour, v.minute, v.second, v.microsecond) == (0, 0, 0, 0) and got == v.date()
            if isinstance(v, int):
                return got == dt.date(1970, 1, 1) + dt.timedelta(days=v)
            return got == v
        if ty == "timestamp":
            if isinstance(v, dt.datetime) and v.tzinfo is not None:
                return got == v.astimezone(UTC).replace(tzinfo=None)
            return got == v
        if ty == "time":
            return got == v
    except Exception:       # noqa: BLE001
        return False
    return got == v


def _arrow_layer(ctx, rep, base, model_rows):
    """what pyarrow alone does with each (type, value class): reject / exact / lossy — the layer under the validator"""
    import pyarrow as pa
    from datashard import Schema, create_table
    t = create_table(os.path.join(base, "arrowprobe"), Schema(schema_id=1, fields=[{"id": 1, "name": "k", "type": "long", "required": True}]))
    dfm = t.file_manager.data_file_manager
    for n, (ty, vals) in enumerate(VALUES.items()):
        # the manager caches arrow schemas by schema id: one id per probed type
        sch = dfm.create_arrow_schema(Schema(schema_id=100 + n, fields=[{"id": 1, "name": "v", "type": ty, "required": False}]))
        for cls, v in vals + [("none", None)]:
            rep.evaluations += 1
            try:
                got = pa.Table.from_pylist([{"v": v}], schema=sch).to_pylist()[0]["v"]
                res = "exact" if represents(ty, v, got) else "lossy"
            except Exception:       # noqa: BLE001
                res = "reject"
            rep.distribution[f"arrow:{res}"] += 1
            model_rows.append((f"ap.arrow {ty} {cls}", res, {"kind": "arrow-layer", "type": ty, "value_class": cls, "value": repr(v)}))
            try:
                guard = getattr(dfm, "_reject_lossy_value", None)
                if guard is not None:       # absent guard = everything passes (the tie then names the difference)
                    guard(0, "v", ty, v)
                g = "pass"
            except Exception:       # noqa: BLE001
                g = "refuse"
            model_rows.append((f"ap.guard {ty} {cls}", g, {"kind": "guard", "type": ty, "value_class": cls, "value": repr(v)}))


def _enc_fields(fields):
    return ",".join(f"{f['id']}:{f['name']}:{f['type']}:{1 if f.get('required') else 0}" for f in fields) or "-"


def _cls(v):
    return "none" if v is None else ("ascii" if isinstance(v, str) else ("float-fractional" if isinstance(v, float) else "max"))


def _enc_record(rec):
    return ",".join(f"{k}={_cls(v)}" for k, v in rec.items()) or "-"


def _state(path):
    v = reader.view(path)
    return (tuple(s["id"] for s in v["snaps"]), tuple(v["rows"]), tuple(sorted(reader.reachable(path))))


def _coercion_grid(ctx, rep, base, model_rows):
    from datashard import Schema, create_table
    i = 0
    for ty, vals in VALUES.items():
        for req in (False, True):
            for cls, v in vals + [("none", None)]:
                i += 1
                p = os.path.join(base, f"g{i}")
                fields = [{"id": 1, "name": "k", "type": "long", "required": True}, {"id": 2, "name": "v", "type": ty, "required": req}]
                t = create_table(p, Schema(schema_id=1, fields=fields))
                t.append_records([{"k": 0, "v": vals[0][1]}])
                before = _state(p)
                case = {"kind": "coercion", "type": ty, "required": req, "value_class": cls, "value": repr(v)}
                rep.evaluations += 1
                try:
                    t.append_records([{"k": 1, "v": v}])
                    accepted = True
                except Exception:       # noqa: BLE001
                    accepted = False
                rep.distribution[f"{ty}:{'accept' if accepted else 'reject'}"] += 1
                rep.nontrivial(["coerce", ty, cls, req])
                if req is False:
                    model_rows.append((f"ap.fits {ty} {cls}", "accept" if accepted else "reject", case))
                if not accepted:
                    after = _state(p)
                    if after != before:
                        rep.violate("C11:rejected-append-left-a-trace", f"{ty} ← {cls}: rejected, yet snapshots / rows / reachable files changed", case)
                else:
                    rows = [r for r in tablekit.load(p).scan() if r["k"] == 1]
                    got = rows[0]["v"] if rows else "<row missing>"
                    if v is None and req:
                        rep.violate("C11:none-accepted-in-required-field", f"{ty} required ← None accepted", case)
                    elif not represents(ty, v, got):
                        if ty in ("int", "long") and isinstance(v, (float, decimal.Decimal)) and math.isfinite(float(v)):
                            sig = "C11:fractional-number-truncated-into-integer-column"
                        elif ty == "float" and isinstance(got, float) and math.isinf(got):
                            sig = "C11:finite-value-stored-as-inf-in-float32-column"
                        elif ty == "date" and isinstance(v, dt.datetime):
                            sig = "C11:datetime-time-of-day-dropped-in-date-column"
                        else:
                            sig = f"C11:value-altered:{ty}:{cls}"
                        rep.violate(sig, f"{ty} column ← {v!r} accepted and stored as {got!r}", case)
                    elif ty in ("int", "long", "float", "double", "string") and v is not None and rows:
                        # no accepted append may make later scans mis-filter: the file now holds {first value, v}
                        first = [r for r in tablekit.load(p).scan() if r["k"] == 0][0]["v"]
                        t.append_records([{"k": 2, "v": vals[0][1]}, {"k": 3, "v": v}])      # and both in ONE file
                        probes_ = [("!=", first, [1, 3] if got != first else []), ("==", first, sorted([0, 2] + ([1, 3] if got == first else [])))]
                        if got == got and got != first:         # (not NaN) the value itself must be findable
                            probes_.append(("==", got, [1, 3]))
                            probes_.append((">=", got, sorted([1, 3] + ([0, 2] if first >= got else []))) if type(first) is type(got) or not isinstance(got, str) else ("==", got, [1, 3]))
                        for op, lit_, want in probes_:
                            try:
                                ks = sorted(r["k"] for r in tablekit.load(p).scan(filter={"v": (op, lit_)}))
                            except Exception as e:      # noqa: BLE001
                                ks = f"raise {type(e).__name__}"
                            rep.evaluations += 1
                            if ks != want:
                                rep.violate("C11:accepted-append-mis-filters:value", f"{ty} column holding [{first!r}, {got!r}]: scan(filter v {op} {lit_!r}) "
                                            f"returns rows k={ks}, expected k={want}", case)
                shutil.rmtree(p, ignore_errors=True)


BASE_FIELDS = [{"id": 1, "name": "a", "type": "long", "required": True}, {"id": 2, "name": "b", "type": "long", "required": False},
               {"id": 3, "name": "c", "type": "string", "required": False}]


def _variants():
    f = BASE_FIELDS
    return {
        "omitted": None,
        "identical": list(f),
        "reordered": [f[1], f[0], f[2]],
        "renumbered": [{**f[0], "id": 2}, {**f[1], "id": 1}, f[2]],
        "ids-shifted": [{**x, "id": x["id"] + 10} for x in f],
        "type-changed": [f[0], {**f[1], "type": "double"}, f[2]],
        "nullability-changed": [{**f[0], "required": False}, f[1], f[2]],
        "extra-field": f + [{"id": 4, "name": "d", "type": "long", "required": False}],
        "missing-field": f[:2],
        "renamed-field": [f[0], {**f[1], "name": "bb"}, f[2]],
    }


def _schema_args(ctx, rep, base, model_rows):
    from datashard import Schema, create_table, load_table
    i = 0
    for name, fields in _variants().items():
        for handle in ("reused", "fresh"):
            for sid in (1, 9):
                if fields is None and sid == 9:
                    continue
                i += 1
                p = os.path.join(base, f"s{i}")
                t = create_table(p, Schema(schema_id=1, fields=BASE_FIELDS))
                t.append_records([{"a": 1, "b": 10, "c": "x"}, {"a": 5, "b": 50, "c": "y"}])
                h = t if handle == "reused" else load_table(p)
                before = _state(p)
                rec = {"a": 2, "b": 20, "c": "z"}
                if name == "extra-field":
                    rec["d"] = 1
                if name == "missing-field":
                    rec.pop("c")
                if name == "renamed-field":
                    rec["bb"] = rec.pop("b")
                if name == "type-changed":
                    rec["b"] = 20.5
                case = {"kind": "schema-arg", "variant": name, "handle": handle, "schema_id": sid}
                rep.evaluations += 1
                try:
                    h.append_records([rec], schema=None if fields is None else Schema(schema_id=sid, fields=[dict(x) for x in fields]))
                    accepted = True
                except Exception:       # noqa: BLE001
                    accepted = False
                rep.distribution[f"schema:{name}:{'accept' if accepted else 'reject'}"] += 1
                rep.nontrivial(["schema", name, handle, sid])
                if fields is not None:
                    model_rows.append((f"ap.schema {_enc_fields(BASE_FIELDS)} {_enc_fields(fields)}", "accept" if accepted else "reject", case))
                    model_rows.append((f"ap.batch {_enc_fields(BASE_FIELDS)} {_enc_fields(fields)} {_enc_record(rec)}",
                                       "accept 1" if accepted else "reject", case))
                if not accepted:
                    if _state(p) != before:
                        rep.violate("C11:rejected-append-left-a-trace", f"schema variant {name}: rejected, yet the table changed", case)
                    # … and no trace in the HANDLE either: the next valid append through it is exact and scans keep working
                    try:
                        h.append_records([{"a": 2, "b": 20, "c": "z"}])
                        for label, hh in (("same-handle", h), ("fresh-handle", load_table(p))):
                            got = sorted((r["a"], r["b"], r["c"]) for r in hh.scan())
                            if got != sorted([(1, 10, "x"), (5, 50, "y"), (2, 20, "z")]):
                                rep.violate("C11:append-after-rejected-append-not-exact", f"after the rejected variant {name}: {label} scan returns {got}", case)
                    except Exception as e:      # noqa: BLE001
                        rep.violate("C11:append-after-rejected-append-breaks-the-table", f"schema variant {name} ({handle} handle, schema_id {sid}) was rejected; "
                                    f"the next valid append / scan through the same handle raises {type(e).__name__}: {str(e)[:80]}", case)
                    continue
                expect = sorted([(1, 10, "x"), (5, 50, "y"), (2, 20, "z")])
                for label, hh in (("same-handle", h), ("fresh-handle", load_table(p))):
                    try:
                        got = sorted((r["a"], r["b"], r["c"]) for r in hh.scan())
                    except Exception as e:      # noqa: BLE001
                        sig = "C11:reordered-schema-argument-bricks-scans" if name == "reordered" else f"C11:accepted-append-makes-scan-fail:{name}"
                        rep.violate(sig, f"schema variant {name} ({handle} handle, schema_id {sid}) accepted; {label} scan raises {type(e).__name__}", case)
                        break
                    if got != expect:
                        rep.violate(f"C11:accepted-append-not-exact:{name}", f"schema variant {name}: {label} scan returns {got}", case)
                        break
                    bad = None
                    for col, val, want in (("a", 2, [(2, 20, "z")]), ("b", 20, [(2, 20, "z")]), ("c", "z", [(2, 20, "z")]), ("b", 50, [(5, 50, "y")])):
                        try:
                            g = sorted((r["a"], r["b"], r["c"]) for r in hh.scan(filter={col: ("==", val)}))
                        except Exception as e:      # noqa: BLE001
                            g = f"raise {type(e).__name__}"
                        if g != want:
                            bad = (col, val, g)
                            break
                    if bad:
                        sig = "C11:renumbered-field-ids-mis-prune" if name in ("renumbered", "ids-shifted") else f"C11:accepted-append-mis-filters:{name}"
                        rep.violate(sig, f"schema variant {name} accepted; {label} scan(filter={{{bad[0]!r}: ('==', {bad[1]!r})}}) returns {bad[2]}", case)
                        break
                shutil.rmtree(p, ignore_errors=True)


def _record_validation(ctx, rep, base, model_rows):
    from datashard import Schema, create_table
    fields = [{"id": 1, "name": "a", "type": "long", "required": True}, {"id": 2, "name": "b", "type": "string", "required": False}]
    cases = {
        "ok": {"a": 1, "b": "x"}, "optional-missing": {"a": 1}, "optional-none": {"a": 1, "b": None}, "required-none": {"a": None, "b": "x"},
        "required-missing": {"b": "x"}, "unknown-field": {"a": 1, "zz": 3}, "misspelt": {"A": 1}, "empty": {},
    }
    for i, (name, rec) in enumerate(cases.items()):
        p = os.path.join(base, f"r{i}")
        t = create_table(p, Schema(schema_id=1, fields=fields))
        t.append_records([{"a": 0, "b": "init"}])
        before = _state(p)
        rep.evaluations += 1
        try:
            t.append_records([{"a": 7, "b": "good"}, rec])
            accepted = True
        except Exception:       # noqa: BLE001
            accepted = False
        case = {"kind": "record", "case": name}
        model_rows.append((f"ap.batch {_enc_fields(fields)} none {_enc_record({'a': 7, 'b': 'good'})};{_enc_record(rec)}",
                           "accept 2" if accepted else "reject", case))
        should = name in ("ok", "optional-missing", "optional-none")
        if accepted != should:
            rep.violate(f"C11:record-validation:{name}", f"record case {name}: {'accepted' if accepted else 'rejected'}", case)
        if not accepted and _state(p) != before:
            rep.violate("C11:rejected-append-left-a-trace", f"record case {name}: rejected batch left a trace (its first record was valid)", case)
        shutil.rmtree(p, ignore_errors=True)


def _arrow_name(ty):
    """the spelling `_iceberg_type_to_arrow` uses in the source for this Arrow type"""
    import pyarrow as pa
    for spelling, t in (("pa.int64()", pa.int64()), ("pa.int32()", pa.int32()), ("pa.string()", pa.string()), ("pa.float64()", pa.float64()),
                        ("pa.float32()", pa.float32()), ("pa.bool_()", pa.bool_()), ("pa.binary()", pa.binary()), ("pa.date32()", pa.date32()),
                        ("pa.time64('us')", pa.time64("us")), ("pa.timestamp('us')", pa.timestamp("us"))):
        if ty == t:
            return spelling
    return "other:" + str(ty)


def _prebuilt_files(ctx, rep, base, model_rows):
    """the file-level append API: a parquet file built outside the library, of every footer-schema variant"""
    import pyarrow as pa
    import pyarrow.parquet as pq
    from datashard import Schema, create_table, load_table
    from datashard.data_structures import DataFile, FileFormat
    fields = [{"id": 1, "name": "a", "type": "long", "required": True}, {"id": 2, "name": "b", "type": "string", "required": False}]
    variants = {
        "exact": pa.schema([pa.field("a", pa.int64(), nullable=False), pa.field("b", pa.string(), nullable=True)]),
        "all-nullable": pa.schema([pa.field("a", pa.int64()), pa.field("b", pa.string())]),
        "all-required": pa.schema([pa.field("a", pa.int64(), nullable=False), pa.field("b", pa.string(), nullable=False)]),
        "reordered": pa.schema([pa.field("b", pa.string(), nullable=True), pa.field("a", pa.int64(), nullable=False)]),
        "narrower-int": pa.schema([pa.field("a", pa.int32(), nullable=False), pa.field("b", pa.string(), nullable=True)]),
        "large-string": pa.schema([pa.field("a", pa.int64(), nullable=False), pa.field("b", pa.large_string(), nullable=True)]),
        "extra-column": pa.schema([pa.field("a", pa.int64(), nullable=False), pa.field("b", pa.string(), nullable=True), pa.field("c", pa.int64())]),
        "missing-column": pa.schema([pa.field("a", pa.int64(), nullable=False)]),
        "renamed": pa.schema([pa.field("a", pa.int64(), nullable=False), pa.field("B", pa.string(), nullable=True)]),
    }
    i = 0
    for name, sch, tag in [(n_, s_, FileFormat.PARQUET) for n_, s_ in variants.items()] + \
            [(n_, variants[n_], t_) for n_ in ("exact", "reordered", "missing-column", "renamed") for t_ in (FileFormat.ORC, FileFormat.AVRO)]:
        # (the read path opens EVERY data file with the parquet reader, whatever format tag its entry carries: the tag must not switch
        # the footer check off)
        for api in ("table.append_data", "tx.append_files"):
            for handle in ("reused", "fresh"):
                i += 1
                p = os.path.join(base, f"f{i}")
                t = create_table(p, Schema(schema_id=1, fields=fields))
                t.append_records([{"a": 1, "b": "x"}])
                cols = {"a": [2, 3], "b": ["y", "z"], "B": ["y", "z"], "c": [7, 8]}
                tab = pa.table({f.name: cols[f.name] for f in sch}, schema=sch)
                os.makedirs(os.path.join(p, "data"), exist_ok=True)
                fp = os.path.join(p, "data", "prebuilt.parquet")
                pq.write_table(tab, fp)
                df = DataFile(file_path="/data/prebuilt.parquet", file_format=tag, partition_values={}, record_count=2,
                              file_size_in_bytes=os.path.getsize(fp))
                h = t if handle == "reused" else load_table(p)
                before = _state(p)
                case = {"kind": "prebuilt-file", "footer": name, "api": api, "handle": handle, "format_tag": str(getattr(tag, "value", tag))}
                rep.evaluations += 1
                rep.nontrivial(["prebuilt", name, api, handle])
                try:
                    if api == "table.append_data":
                        ok = h.append_data([df])
                    else:
                        with h.new_transaction() as tx:
                            tx.append_files([df])
                            ok = tx.commit()
                    accepted = ok is not False
                except Exception:       # noqa: BLE001
                    accepted = False
                rep.distribution[f"prebuilt:{name}:{'accept' if accepted else 'reject'}"] += 1
                ft = ",".join(f"{f.name}:{enc(_arrow_name(f.type))}:{1 if f.nullable else 0}" for f in sch)
                model_rows.append((f"ap.file {_enc_fields(fields)} {ft}", "accept" if accepted else "reject", case))
                if not accepted:
                    after = _state(p)
                    if (after[0], after[1]) != (before[0], before[1]) or not set(before[2]) <= set(after[2]):
                        rep.violate("C11:rejected-append-left-a-trace", f"pre-built file ({name}) rejected, yet snapshots / rows changed", case)
                    continue
                expect = [(1, "x"), (2, "y"), (3, "z")]
                for label, hh in (("same-handle", h), ("fresh-handle", load_table(p))):
                    probes = [(None, expect), ({"a": ("==", 2)}, [(2, "y")]), ({"b": ("==", "z")}, [(3, "z")]), ({"a": (">", 1)}, [(2, "y"), (3, "z")])]
                    for flt, want in probes:
                        try:
                            got = sorted((r["a"], r["b"]) for r in hh.scan(filter=flt))
                        except Exception as e:      # noqa: BLE001
                            rep.violate("C11:accepted-file-makes-scan-fail", f"pre-built file with footer '{name}' accepted via {api}; {label} "
                                        f"scan(filter={flt}) raises {type(e).__name__}: {str(e)[:80]}", case)
                            break
                        if got != want:
                            rep.violate("C11:accepted-file-not-exact", f"pre-built file with footer '{name}' accepted; {label} scan(filter={flt}) returns {got}", case)
                            break
                    else:
                        continue
                    break
                shutil.rmtree(p, ignore_errors=True)


def _large_appends(ctx, rep, base):
    """one append of more rows than the writer's internal batch: every supplied row comes back exactly once"""
    from datashard import Schema, create_table, load_table
    fields = [{"id": 1, "name": "k", "type": "long", "required": True}, {"id": 2, "name": "s", "type": "string", "required": False}]
    for n in (999, 1000, 1001, 2000, 2001, 2500, 4321):
        p = os.path.join(base, f"big{n}")
        t = create_table(p, Schema(schema_id=1, fields=fields))
        rows = [{"k": i, "s": f"r{i}"} for i in range(n)]
        t.append_records(rows)
        rep.evaluations += 1
        rep.nontrivial(["large-append", n])
        case = {"kind": "large-append", "rows": n}
        for label, hh in (("same-handle", t), ("fresh-handle", load_table(p))):
            got = sorted(r["k"] for r in hh.scan())
            cnt = hh.row_count()
            if got != list(range(n)) or cnt != n:
                dup = len(got) - len(set(got))
                rep.violate("C11:accepted-append-not-exact:large", f"append of {n} rows: {label} scan returns {len(got)} rows ({dup} duplicates, "
                            f"{n - len(set(got))} missing), row_count {cnt}", case)
                break
        shutil.rmtree(p, ignore_errors=True)


def _multi_op_transactions(ctx, rep, base):
    """several appends (records and pre-built files) queued in ONE transaction: every accepted row comes back"""
    import pyarrow as pa
    import pyarrow.parquet as pq
    from datashard import Schema, create_table, load_table
    from datashard.data_structures import DataFile, FileFormat
    fields = [{"id": 1, "name": "a", "type": "long", "required": True}, {"id": 2, "name": "b", "type": "string", "required": False}]
    sch = pa.schema([pa.field("a", pa.int64(), nullable=False), pa.field("b", pa.string(), nullable=True)])
    bad = pa.schema([pa.field("a", pa.int64(), nullable=False), pa.field("zz", pa.string(), nullable=True)])

    def mkfile(p, rel, schema, a):
        full = os.path.join(p, rel)
        os.makedirs(os.path.dirname(full), exist_ok=True)
        pq.write_table(pa.table({schema[0].name: [a], schema[1].name: ["f"]}, schema=schema), full)
        return DataFile(file_path="/" + rel, file_format=FileFormat.PARQUET, partition_values={}, record_count=1, file_size_in_bytes=os.path.getsize(full))
    # (1) three record appends + one file append in one transaction
    p = os.path.join(base, "multi1")
    t = create_table(p, Schema(schema_id=1, fields=fields))
    with t.new_transaction() as tx:
        tx.append_data([{"a": 10, "b": "x"}, {"a": 11, "b": "x"}])
        tx.append_data([{"a": 20, "b": "y"}])
        tx.append_files([mkfile(p, "data/pre1.parquet", sch, 30)])
        tx.append_data([{"a": 40, "b": "z"}])
        tx.commit()
    rep.evaluations += 1
    rep.nontrivial(["multi-op", 1])
    # tie with the model of the partition loop: which queued append each committed data file came from, in manifest order
    try:
        v_ = reader.view(p)
        cur_ = [s_ for s_ in v_["snaps"] if s_["id"] == v_["cur"]][0]
        origin = {10: 1, 11: 1, 20: 2, 30: 3, 40: 4}
        seq = []
        for f_ in cur_["files"]:
            vals = {r_["a"] for r_ in reader.read_rows(reader.DirStore(p), f_)}
            seq.append(str(sorted({origin.get(a_, 0) for a_ in vals})[0]))
        impl_ = "appends=" + ",".join(seq) + " deletes= cutoff=- shape=fileOps"
        m_ = driver.ask(["tx.partition a:1 a:2 a:3 a:4"])[0]
        rep.corr_cases += 1
        if m_ != impl_:
            rep.diverge("tx.partition (operations queued in one transaction)", {"kind": "multi-op-transaction"}, m_, impl_)
    except Exception as e:      # noqa: BLE001
        rep.notes.append(f"multi-op tie skipped: {type(e).__name__}")
    for label, hh in (("same-handle", t), ("fresh-handle", load_table(p))):
        got = sorted(r["a"] for r in hh.scan())
        if got != [10, 11, 20, 30, 40] or hh.row_count() != 5:
            rep.violate("C11:accepted-append-not-exact:multi-op", f"one transaction with 4 queued appends: {label} scan returns a={got}, row_count {hh.row_count()}",
                        {"kind": "multi-op-transaction"})
            break
    # (1b) a BATCH of files rejected as a whole because of a later member (divergent footer / missing file): the caller catches the error and
    # commits the same transaction with something else (or nothing else) queued — no file of the rejected batch may be published
    for bad_kind in ("divergent", "missing"):
        for also in ("record-append", "nothing"):
            for pos in (1, 2):
                p = os.path.join(base, f"multi-batch-{bad_kind}-{also}-{pos}")
                t = create_table(p, Schema(schema_id=1, fields=fields))
                t.append_records([{"a": 1, "b": "x"}])
                before = _state(p)
                batch = [mkfile(p, f"data/b{k_}.parquet", sch, 100 + k_) for k_ in range(3)]
                if bad_kind == "divergent":
                    batch[pos] = mkfile(p, "data/bbad.parquet", bad, 999)
                else:
                    os.remove(os.path.join(p, batch[pos].file_path.lstrip("/")))
                tx = t.new_transaction().begin()
                rejected = False
                try:
                    tx.append_files(batch)
                except Exception:       # noqa: BLE001
                    rejected = True
                rep.evaluations += 1
                rep.nontrivial(["multi-op-batch", bad_kind, also, pos])
                case = {"kind": "rejected-batch-then-commit", "bad_member": bad_kind, "bad_position": pos, "also_queued": also}
                if not rejected:
                    tx.rollback()
                    if bad_kind == "divergent":
                        rep.violate("C11:accepted-file-makes-scan-fail", f"a batch holding a file with a divergent footer at position {pos} was accepted", case)
                    continue
                try:
                    if also == "record-append":
                        tx.append_data([{"a": 7, "b": "ok"}])
                    tx.commit()
                except Exception:       # noqa: BLE001
                    try:
                        tx.rollback()
                    except Exception:   # noqa: BLE001
                        pass
                got = sorted(r["a"] for r in load_table(p).scan())
                want = [1, 7] if also == "record-append" else [1]
                if any(a_ >= 100 for a_ in got):
                    rep.violate("C11:rejected-append-left-a-trace", f"append_files(batch of 3, member {pos} {bad_kind}) raised; committing the same transaction "
                                f"afterwards ({also} queued) published files of the rejected batch: a={got}", case)
                elif also == "nothing" and _state(p)[0] != before[0]:
                    rep.violate("C11:rejected-append-left-a-trace", f"append_files(batch of 3, member {pos} {bad_kind}) raised; committing the otherwise empty "
                                f"transaction changed the table (rows {got})", case)
                elif got != want and got != [1]:
                    rep.violate("C11:accepted-append-not-exact:multi-op", f"after a rejected batch the same transaction's record append gives a={got}", case)
    # (1c) two GOOD pre-built files with the same base name in two partition directories, in one transaction and in two: every row of both
    # comes back through every read path, and deleting one leaves the other
    for split in (False, True):
        p = os.path.join(base, f"multi-samebase-{int(split)}")
        t = create_table(p, Schema(schema_id=1, fields=fields))
        t.append_records([{"a": 1, "b": "x"}])
        fa, fb = mkfile(p, "data/region=eu/part-0.parquet", sch, 21), mkfile(p, "data/region=us/part-0.parquet", sch, 22)
        if split:
            t.append_data([fa])
            t.append_data([fb])
        else:
            with t.new_transaction() as tx:
                tx.append_files([fa, fb])
                tx.commit()
        rep.evaluations += 1
        rep.nontrivial(["multi-op-samebase", split])
        case = {"kind": "prebuilt-files-same-base-name", "one_transaction": not split}
        for label, hh in (("same-handle", t), ("fresh-handle", load_table(p))):
            outs = {"scan": sorted(r["a"] for r in hh.scan()), "scan(parallel=2)": sorted(r["a"] for r in hh.scan(parallel=2)),
                    "scan_batches": sorted(r["a"] for b_ in hh.scan_batches(batch_size=1) for r in b_),
                    "iter_records": sorted(r["a"] for r in hh.iter_records()), "row_count": hh.row_count(),
                    "filter a==22": sorted(r["a"] for r in hh.scan(filter={"a": 22}))}
            want = {"scan": [1, 21, 22], "scan(parallel=2)": [1, 21, 22], "scan_batches": [1, 21, 22], "iter_records": [1, 21, 22], "row_count": 3, "filter a==22": [22]}
            bad = {k_: v_ for k_, v_ in outs.items() if v_ != want[k_]}
            if bad:
                rep.violate("C11:accepted-append-not-exact:multi-op", f"two accepted pre-built files with the same base name in two directories: {label} {bad}", case)
                break
        with t.new_transaction() as tx:
            tx.delete_files([fa.file_path])
            tx.commit()
        got = sorted(r["a"] for r in load_table(p).scan())
        if got != [1, 22]:
            rep.violate("C11:accepted-append-not-exact:multi-op", f"after deleting {fa.file_path} the table reads a={got} (expected [1, 22])", case)
    # (2) same base name in two sub-directories, the second one divergent; and a rejected file offered again on the same transaction
    for scenario in ("same-basename", "retry-rejected"):
        p = os.path.join(base, "multi-" + scenario)
        t = create_table(p, Schema(schema_id=1, fields=fields))
        t.append_records([{"a": 1, "b": "x"}])
        before = _state(p)
        accepted = []
        tx = t.new_transaction().begin()
        try:
            if scenario == "same-basename":
                tx.append_files([mkfile(p, "data/day=1/part-0.parquet", sch, 2)])
                attempts = [mkfile(p, "data/day=2/part-0.parquet", bad, 3)]
            else:
                f_bad = mkfile(p, "data/part-9.parquet", bad, 3)
                attempts = [f_bad, f_bad]
            for df in attempts:
                try:
                    tx.append_files([df])
                    accepted.append(True)
                except Exception:       # noqa: BLE001
                    accepted.append(False)
            if any(accepted):
                tx.commit()
            else:
                tx.rollback()
        except Exception:       # noqa: BLE001
            pass
        rep.evaluations += 1
        rep.nontrivial(["multi-op", scenario])
        case = {"kind": "prebuilt-files-in-one-transaction", "scenario": scenario, "divergent_file_accepted": accepted}
        if any(accepted):
            try:
                load_table(p).scan()
            except Exception as e:      # noqa: BLE001
                rep.violate("C11:accepted-file-makes-scan-fail", f"{scenario}: a parquet file whose footer differs from the table schema was accepted "
                            f"({accepted}); scan raises {type(e).__name__}", case)
        elif scenario == "retry-rejected" and _state(p)[:2] != before[:2]:
            rep.violate("C11:rejected-append-left-a-trace", f"{scenario}: rejected twice, yet the table changed", case)


def run(ctx, model_ok):
    rep = Report()
    rep.rule = ("the whole grid: 11 column types × 4–13 value classes (boundary ints, integral / fractional floats and decimals into integer "
                "columns, ±0, NaN / inf, float32 overflow and subnormal, > 2^53, unicode, NUL, bytes, wrong Python types, tz-aware datetimes, "
                "datetime into date) × optional / required; 10 schema-argument variants × fresh / reused handle × schema id 1 / 9, each followed by "
                "full and per-column filtered scans through the same and a fresh handle; 8 record-shape cases in a two-record batch; pre-built "
                "parquet files of 9 footer-schema variants (exact, all-nullable, all-required, reordered, narrower int, large_string, extra / "
                "missing / renamed column) × both file-level append APIs × fresh / reused handle, followed by full and filtered scans.")
    base = scratch_dir("c11-")
    rows = []
    try:
        _coercion_grid(ctx, rep, base, rows)
        _schema_args(ctx, rep, base, rows)
        _record_validation(ctx, rep, base, rows)
        _arrow_layer(ctx, rep, base, rows)
        _prebuilt_files(ctx, rep, base, rows)
        _large_appends(ctx, rep, base)
        _multi_op_transactions(ctx, rep, base)
        rep.exhaustive = True
        if model_ok and rows:
            seen = {}
            for rq, impl, case in rows:
                seen.setdefault(rq, set()).add(impl)
            reqs = sorted(seen)
            replies = driver.ask(reqs)
            for rq, m in zip(reqs, replies):
                rep.corr_cases += 1
                if m.startswith("reject "):
                    m = "reject"
                if seen[rq] != {m}:
                    rep.diverge("ap.* (append acceptance tables)", {"request": rq}, m, sorted(seen[rq]))
            rep.sample({"acceptance_case": reqs[0], "model": replies[0]})
    finally:
        shutil.rmtree(base, ignore_errors=True)
    return rep
