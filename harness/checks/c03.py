"""C03 — a crash at any point leaves the table in the pre- or post-operation state.

Theorems: DSV/Props/C03.lean (crash_pre_or_post, crash_readable over the syscall lowering of DSV/Model/Fs.lean).
Oracle: REAL crash images — the table directory is copied before every os-level call the library makes (temp-file creation,
write, fsync, close, rename, unlink, directory fsync) during table creation, append, delete-files, expire, delete-snapshot and
garbage collection; plus truncated-temp-file variants for deaths inside the parquet writer. Each image is reopened by the
independent reader and by the library in a fresh handle: state ∈ {pre, post} (post only after the pointer's rename), every
retained snapshot readable, a follow-up append commits, a later collection deletes only unreachable leftovers.
"""
import os
import shutil

from .. import reader, tablekit
from ..crash import CrashRecorder
from ..report import Report
from ..util import scratch_dir

ASSUMPTIONS = [
    "process death only (page cache survives); power loss is C16",
    "rename(2) is atomic; a dead process's flock is released by the kernel",
]


def _sig(path):
    v = reader.view(path)
    return (v["uuid"], tuple(v["rows"]), tuple(sorted(s["id"] for s in v["snaps"])))


def _ops(t):
    sn = t.snapshots()
    paths = tablekit.data_paths(t)
    ops = {"append": lambda h: h.append_records(tablekit.rows(2, start=500, tag="n"))}
    if paths:
        ops["delfiles"] = lambda h: _tx(h, lambda tx: tx.delete_files(["/" + paths[0]]))
    if len(sn) >= 2:
        ops["expire"] = lambda h: _tx(h, lambda tx: tx.expire_snapshots(sn[-1]["timestamp_ms"]))
        ops["delsnap"] = lambda h: h.snapshot_manager.delete_snapshot(sn[0]["snapshot_id"])
        # ONE transaction doing two things: its crash images must be the state before or after BOTH
        ops["append+expire"] = lambda h: _tx(h, lambda tx: (tx.append_data(tablekit.rows(1, start=700, tag="ae")), tx.expire_snapshots(sn[-1]["timestamp_ms"])))
    if paths:
        ops["delete+append"] = lambda h: _tx(h, lambda tx: (tx.delete_files(["/" + paths[0]]), tx.append_data(tablekit.rows(1, start=800, tag="da"))))
    ops["gc"] = lambda h: h.garbage_collect(grace_period_ms=0)
    return ops


def _tx(h, f):
    with h.new_transaction() as tx:
        f(tx)
        tx.commit()


def _check_image(rep, img, pre, post, flipped_possible, case):
    problems = []
    try:
        s = _sig(img)
    except reader.Broken as e:
        problems.append(f"image unreadable: {e}")
        s = None
    if s is not None:
        if s == pre:
            pass
        elif s == post and flipped_possible:
            pass
        elif s == post:
            problems.append("post-state visible before the pointer was advanced")
        else:
            problems.append(f"state is neither pre nor post ({len(s[1])} rows, {len(s[2])} snapshots)")
    if not problems:
        try:
            h = tablekit.load(img)
            rows = sorted(reader.rowkey(r) for r in h.scan())
            if tuple(rows) != s[1]:
                problems.append("library reads different rows than the independent reader")
            h.append_records(tablekit.rows(1, start=9000, tag="after"))
            if len(h.scan()) != len(rows) + 1:
                problems.append("follow-up append not reflected")
            before = set(reader.DirStore(img).list())
            reach = _all_reach(img)
            from datashard.garbage_collector import GarbageCollector
            GarbageCollector(img, h.metadata_manager, h.file_manager).collect(grace_period_ms=0, inflight_timeout_ms=0)
            after = set(reader.DirStore(img).list())
            bad = (before - after) & reach
            if bad:
                problems.append(f"a later collection deleted reachable {sorted(bad)[:2]}")
            left = [f for f in after if (f.startswith("data/") or f.startswith("metadata/manifests/")) and f not in reach]
            if left:
                problems.append(f"leftovers survive a collection: {sorted(left)[:3]}")
            _sig(img)
        except Exception as e:      # noqa: BLE001
            problems.append(f"reopened table not usable: {type(e).__name__}: {str(e)[:100]}")
    for p_ in problems:
        rep.violate("C03:" + p_.split(":")[0].split("(")[0].strip().replace(" ", "-")[:60], f"{case['op']} crash point {case['point']} ({case['at']}): {p_}", case)


def _all_reach(path):
    store = reader.DirStore(path)
    md = reader.read_metadata(store, reader.pointer(store)[1])
    out = set()
    for s in md["snapshots"]:
        c = reader.snapshot_content(store, s)
        out.add(c["mlist"])
        out.update(c["manifests"])
        out.update(c["files"])
    return out


def _one(ctx, rep, op, n_prior, base):
    root = os.path.join(base, "tbl")
    images = os.path.join(base, "img")
    shutil.rmtree(root, ignore_errors=True)
    shutil.rmtree(images, ignore_errors=True)
    if op == "create":
        os.makedirs(base, exist_ok=True)
        with CrashRecorder(base + "/tbl", images) as rec:
            os.makedirs(root, exist_ok=True)
            rec.active = True
            tablekit.create(root)
        post = _sig(root)
        pre = None
    else:
        t = tablekit.create(root)
        for i in range(n_prior):
            t.append_records(tablekit.rows(2, start=10 * i, tag=f"p{i}_"))
        if op == "gc":
            for rel in ("data/orphan.parquet", "metadata/manifests/orphan.avro"):
                open(os.path.join(root, rel), "wb").write(b"x")
        ops = _ops(t)
        if op not in ops:
            return
        pre = _sig(root)
        h = tablekit.load(root)
        with CrashRecorder(root, images) as rec:
            ops[op](h)
        post = _sig(root)
    hint_real = os.path.realpath(os.path.join(root, "metadata.version-hint.text"))
    flip_k = next((i for i, (n, a) in enumerate(rec.log) if n == "os.replace" and False), None)
    # the flip boundary: the os.replace whose destination is the pointer — recorded args hold only the source, so find it by effect:
    flip_k = None
    for k in range(rec.k):
        img = os.path.join(images, f"{k:04d}")
        hp = os.path.join(img, "metadata.version-hint.text")
        cur = open(hp, "rb").read() if os.path.exists(hp) else None
        final = open(os.path.join(root, "metadata.version-hint.text"), "rb").read()
        if cur == final and flip_k is None:
            flip_k = k
    rep.distribution[f"{op}:images"] += rec.k
    # correspondence with the model's lowering (DSV/Model/Fs.lean `lowerWrite`): every rename is preceded by temp creation, write and fsync
    # of the temp file and followed by a directory fsync — the same shape C16 checks on the strace level
    names = [n for n, _a in rec.log]
    for i, n in enumerate(names):
        if n == "os.replace":
            rep.corr_cases += 1
            before, after = names[max(0, i - 12):i], names[i + 1:i + 6]
            ok = any(x.startswith("tempfile.") for x in before) and "os.fsync" in before and "os.fsync" in after
            if not ok:
                rep.diverge("lowering of an atomic write (os-level call sequence)", {"op": op, "index": i}, "mkstemp … write … fsync → replace → fsync(dir)", before + ["os.replace"] + after)
    for k in range(rec.k):
        img = os.path.join(images, f"{k:04d}")
        case = {"kind": "crash-image", "op": op, "prior_snapshots": n_prior, "point": k, "at": f"{rec.log[k][0]}({os.path.basename(rec.log[k][1])[:50]})"}
        rep.evaluations += 1
        rep.nontrivial(["c03", op, n_prior, k])
        if op == "create":
            # commit point of creation = the first recoverable metadata version (DESIGN §7): either nothing is there yet, or the table is
            try:
                md_files = reader.metadata_files(reader.DirStore(img)) if os.path.isdir(img) else {}
            except Exception:       # noqa: BLE001
                md_files = {}
            if not md_files:
                # pre-state "absent": creating it now must work
                try:
                    t2 = tablekit.create(img)
                    t2.append_records(tablekit.rows(1))
                    assert len(t2.scan()) == 1
                except Exception as e:      # noqa: BLE001
                    rep.violate("C03:create-after-crashed-create-fails", f"create crash point {k}: {type(e).__name__}: {str(e)[:100]}", case)
            else:
                try:
                    t2 = tablekit.create(img)           # must adopt, not re-initialise
                    u = t2.metadata_manager.refresh().table_uuid
                    if u != post[0]:
                        rep.violate("C03:crashed-create-reinitialised", f"create crash point {k}: identity {u[:8]} ≠ the one being created", case)
                    t2.append_records(tablekit.rows(1))
                    assert len(t2.scan()) == 1
                except Exception as e:      # noqa: BLE001
                    rep.violate("C03:table-unusable-after-crashed-create", f"create crash point {k}: {type(e).__name__}: {str(e)[:100]}", case)
            continue
        _check_image(rep, img, pre, post, flip_k is not None and k >= flip_k, case)
        # deaths inside the parquet writer: the newest temp data file cut short
        if op == "append" and rec.log[k][0] == "os.open" and rec.log[k][1].endswith(".parquet"):
            tmpf = rec.log[k][1]
            rel = os.path.relpath(tmpf, os.path.realpath(root))
            for frac in (0, 2):
                img2 = img + f".cut{frac}"
                shutil.copytree(img, img2, copy_function=shutil.copy2)
                p2 = os.path.join(img2, rel)
                if os.path.exists(p2):
                    data = open(p2, "rb").read()
                    open(p2, "wb").write(data[: (len(data) // frac) if frac else 0])
                    rep.evaluations += 1
                    _check_image(rep, img2, pre, post, False, {**case, "at": case["at"] + f" temp file cut to 1/{frac or 'inf'}"})
                shutil.rmtree(img2, ignore_errors=True)
    shutil.rmtree(images, ignore_errors=True)
    shutil.rmtree(root, ignore_errors=True)


class _Die(BaseException):
    pass


def _s3_images(ctx, rep):
    """the same on object storage (both commit paths): the writer dies before its k-th mutating request, for every k of {create, append,
    delete files}. The image is the store AT THAT INSTANT (whatever the dying interpreter's cleanup code does afterwards is discarded);
    the dead writer's lock is left in place and aged past its lease. The image must be the pre- or the post-state (post only with the
    pointer advanced), readable, open-able / creatable, and must accept a commit."""
    import copy
    import datetime as _dt
    from .. import fakes3
    for cas in (True, False):
        for op in ("create", "append", "delfiles"):
            k = 0
            while k < 60:
                with fakes3.S3Env(cas=cas) as env, fakes3.NoSleep():
                    loc = "wh/c"
                    fake = env.fake
                    if op != "create":
                        t = tablekit.create(loc)
                        t.append_records(tablekit.rows(2, start=0, tag="a"))
                        t.append_records(tablekit.rows(2, start=10, tag="b"))
                        pre = _sig(reader.S3Store(fake, loc))
                    else:
                        pre = None
                    state = {"n": 0, "image": None, "key": None}

                    def hook(phase, opn, key, kw, state=state, k=k):
                        if phase == "before" and opn in ("put", "delete") and state["image"] is None:
                            if state["n"] == k:
                                state["image"] = {k_: (o_.data, o_.etag, o_.mtime) for k_, o_ in fake.objects.items()}
                                state["key"] = f"{opn} {key}"
                                raise _Die()
                            state["n"] += 1
                    fake.hook = hook
                    try:
                        if op == "create":
                            t = tablekit.create(loc)
                        elif op == "append":
                            tablekit.load(loc).append_records(tablekit.rows(2, start=500, tag="n"))
                        else:
                            h_ = tablekit.load(loc)
                            _tx(h_, lambda tx: tx.delete_files(["/" + tablekit.data_paths(h_)[0]]))
                    except BaseException:       # noqa: BLE001
                        pass
                    fake.hook = None
                    if state["image"] is None:
                        # the operation completed in fewer than k+1 mutating requests: its end state is the post-state; sweep done
                        break
                    post_store = {k_: (o_.data, o_.etag, o_.mtime) for k_, o_ in fake.objects.items()}
                    # what the post-state looks like: run the operation to completion on a copy of the pre-image? simpler — the only
                    # acceptable non-pre state is "the new snapshot / table is there and complete": judged structurally below
                    fake.objects = {k_: fakes3._Obj(d_, e_, m_ - (_dt.timedelta(hours=2) if "/.locks/" in k_ else _dt.timedelta(0)))
                                    for k_, (d_, e_, m_) in state["image"].items()}
                    rep.evaluations += 1
                    rep.nontrivial(["s3-crash", cas, op, k])
                    rep.distribution[f"s3-crash:{op}"] += 1
                    case = {"kind": "s3-crash-image", "conditional_writes": cas, "op": op, "died_before_request": k, "request": state["key"]}
                    store = reader.S3Store(fake, loc)
                    has_pointer = any(k_.endswith("metadata.version-hint.text") for k_ in fake.objects)
                    problems = []
                    try:
                        if op == "create" and not has_pointer:
                            t2 = tablekit.create(loc)           # pre-state of a creation: the location is creatable
                        else:
                            sig = _sig(store)
                            if op != "create" and sig != pre:
                                # not the pre-state: must be the complete post-state
                                if sig[0] != pre[0] or len(sig[2]) != len(pre[2]) + 1:
                                    problems.append(f"neither pre- nor post-state: {len(sig[1])} rows, {len(sig[2])} snapshots")
                            t2 = tablekit.load(loc)
                            if sorted(map(reader.rowkey, t2.scan())) != sorted(sig[1]):
                                problems.append("library scan differs from the independent reader")
                        t2.append_records(tablekit.rows(1, start=900, tag="after"))
                        after = _sig(store)
                        if not any("after" in str(r_) for r_ in after[1]):
                            problems.append("the follow-up append is not visible")
                    except reader.Broken as e:
                        problems.append(f"image unreadable: {e}")
                    except Exception as e:      # noqa: BLE001
                        problems.append(f"reopen / follow-up commit raises {type(e).__name__}: {str(e)[:90]}")
                    if problems:
                        rep.violate(f"C03:s3-crash-image:{op}", f"S3 ({'CAS' if cas else 'plain'}) {op}, writer dies before request #{k} ({state['key']}): " + "; ".join(problems), case)
                k += 1


def run(ctx, model_ok):
    rep = Report()
    rep.rule = ("every os-level call boundary (temp-file creation, write, fsync, close, rename, unlink, directory fsync, makedirs) of "
                "{create, append, delete files, expire, delete snapshot, collect} on tables with {1, 3} (thorough: 0–6) prior snapshots: one "
                "crash image per boundary + truncated-temp-file variants inside the parquet write; every image re-read, appended to and collected.")
    base = scratch_dir("c03-")
    import time as _time
    real_sleep = _time.sleep
    _time.sleep = lambda s_: real_sleep(0)      # commit retry back-off: a change that makes follow-up commits fail must not cost minutes per image
    try:
        priors = [1, 3] if not ctx.thorough else [0, 1, 2, 3, 4, 6]
        _one(ctx, rep, "create", 0, base)
        for op in ("append", "delfiles", "expire", "delsnap", "gc", "append+expire", "delete+append"):
            for n in priors:
                _one(ctx, rep, op, n, base)
        _s3_images(ctx, rep)
        from . import c19
        c19.s3_dead_holder(ctx, rep, "C03:dead-writer-lock-wedges-the-table")
        rep.exhaustive = True
    finally:
        _time.sleep = real_sleep
        shutil.rmtree(base, ignore_errors=True)
    return rep
