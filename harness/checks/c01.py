"""C01 — concurrent commits are serializable: no acknowledged write lost or duplicated.

Theorems: DSV/Props/C01.lean (serial, final_is_fold, ack_iff_flip, serial_refuted) over DSV/Model/Occ.lean.
Correspondence: real committers (threads running real library calls under a deterministic scheduler) → abstract
trace → accepted step by step by the model (`occ.trace`).  Oracle: serializability of the final table read by the
independent reader, against the acknowledgements.
"""
import os
import shutil

from .. import driver, fakes3, invariants, occtrace, reader, sched, tablekit, vstore
from ..report import Report
from ..util import scratch_dir
from ..vclock import VClock

ASSUMPTIONS = [
    "local flock gives mutual exclusion (C19's theorem; kernel contract) — modelled as an exclusive lock",
    "fake S3 implements conditional PUT (If-Match / If-None-Match) atomically",
]

# model configuration of the code under test
MODEL_CFG = {"local": "cas=0 excl=1 strict=1 single=0", "s3cas": "cas=1 excl=1 strict=1 single=1"}


def _patch_sleep(S):
    import datashard.file_lock as fl
    import datashard.lock_provider as lp
    import time as _t
    import types
    saved = [(fl, fl.time), (lp, lp.time)]
    fake = types.SimpleNamespace(time=_t.time, monotonic=_t.monotonic, sleep=lambda s: S.gate("sleep"))
    fl.time = fake
    lp.time = fake
    import datashard.transaction as tr

    def restore():
        for m, t in saved:
            m.time = t
    return restore


class _NoBackoff:
    """Transaction.commit imports time/random locally and sleeps between retries: make that sleep a scheduling point."""

    def __init__(self, S):
        self.S = S

    def __enter__(self):
        import time as _t
        self.orig = _t.sleep
        S = self.S
        _t.sleep = lambda s: S.gate("backoff") if S.actor() is not None else self.orig(0)
        return self

    def __exit__(self, *a):
        import time as _t
        _t.sleep = self.orig


def _tx_callable(handle, spec):
    k = spec["kind"]
    if k == "append":
        return lambda: handle.append_records(spec["rows"])
    if k == "append2":
        # the SAME writer object commits twice in a row (whatever it remembers from its first commit is in play for the second)
        def two():
            spec["done"] = [False, False]
            for i_, rows_ in enumerate(spec["parts"]):
                try:
                    handle.append_records(rows_)
                    spec["done"][i_] = True
                except Exception as e:      # noqa: BLE001
                    spec.setdefault("errors", []).append(type(e).__name__)
            return True
        return two
    if k == "locktouch":
        # takes the table's commit lock (over, if its holder's lease lapsed) and releases it again without committing anything
        def touch():
            lp = handle.metadata_manager.lock_provider
            lp.acquire()
            lp.release()
            return True
        return touch
    if k == "delsnap":
        return lambda: handle.snapshot_manager.delete_snapshot(spec["snapshot"])
    if k == "append+expire":
        def ae():
            with handle.new_transaction() as tx:
                tx.append_data(spec["rows"])
                tx.expire_snapshots(spec["cutoff"])
                return tx.commit()
        return ae
    if k == "expire":
        def f():
            with handle.new_transaction() as tx:
                tx.expire_snapshots(spec["cutoff"])
                return tx.commit()
        return f
    if k == "delfiles":
        def g():
            with handle.new_transaction() as tx:
                tx.delete_files([spec["path"]])
                return tx.commit()
        return g
    raise ValueError(k)


def run_case(ctx, rep, case, base_dir, model_ok):
    rng = ctx.rng("case", case["id"])
    path = os.path.join(base_dir, f"t{case['id']}")
    backend = case["backend"]
    env = fakes3.S3Env() if backend == "s3cas" else None
    clock = VClock()
    step = {"frozen": 0, "coarse": 0, "real": 1}[case["clock"]]
    loc = path if backend == "local" else f"wh/t{case['id']}"
    try:
        if env:
            env.__enter__()
        with clock:
            clock.now_ms = 1_767_225_600_000
            clock.auto_step_ms = step
            t0 = tablekit.create(loc)
            init_rows = []
            if case.get("shared_manifest"):
                # the three initial data files live in ONE manifest (one transaction): file operations of different committers meet there
                with t0.new_transaction() as tx0:
                    for i in range(3):
                        r = tablekit.rows(1, start=100 + i, tag="init")
                        tx0.append_data(r)
                        init_rows += r
                    tx0.commit()
                t0.append_records(tablekit.rows(1, start=150, tag="init"))
                init_rows += tablekit.rows(1, start=150, tag="init")
                t0.append_records(tablekit.rows(1, start=151, tag="init"))
                init_rows += tablekit.rows(1, start=151, tag="init")
            for i in range(0 if case.get("shared_manifest") else 3):
                r = tablekit.rows(1, start=100 + i, tag="init")
                t0.append_records(r)
                init_rows += r
            init_snaps = [s["snapshot_id"] for s in t0.snapshots()]
            init_files = tablekit.data_paths(t0)
            store = reader.DirStore(path) if backend == "local" else reader.S3Store(env.fake, loc)
            p0 = reader.pointer(store)
            md0 = reader.read_metadata(store, p0[1])
            # transactions
            specs = {}
            for ai in range(1, case["actors"] + 1):
                kind = case["kinds"][ai - 1]
                if kind == "append":
                    specs[ai] = {"kind": "append", "rows": tablekit.rows(1, start=1000 * ai, tag=f"a{ai}_")}
                elif kind == "append2":
                    specs[ai] = {"kind": "append2", "parts": [tablekit.rows(1, start=1000 * ai, tag=f"a{ai}x_"), tablekit.rows(1, start=1000 * ai + 50, tag=f"a{ai}y_")]}
                elif kind == "locktouch":
                    specs[ai] = {"kind": "locktouch"}
                elif kind == "append+expire":
                    specs[ai] = {"kind": "append+expire", "rows": tablekit.rows(1, start=1000 * ai, tag=f"a{ai}_"),
                                 "cutoff": md0["snapshots"][0]["timestamp_ms"] + (1 if case["clock"] != "frozen" else 0)}
                elif kind == "delsnap":
                    specs[ai] = {"kind": "delsnap", "snapshot": init_snaps[(ai - 1) % 2]}      # never the current one
                elif kind == "expire":
                    specs[ai] = {"kind": "expire", "cutoff": md0["snapshots"][1]["timestamp_ms"] + (1 if case["clock"] != "frozen" else 0)}
                elif kind == "delfiles":
                    specs[ai] = {"kind": "delfiles", "path": "/" + init_files[(ai - 1) % len(init_files)]}
            if case.get("drop_hint"):       # the pointer object is lost before the committers start: both recover the version by listing
                if env is not None:
                    for k_ in [k_ for k_ in env.fake.objects if k_.endswith("metadata.version-hint.text")]:
                        del env.fake.objects[k_]
                else:
                    os.remove(os.path.join(path, "metadata.version-hint.text"))
            if callable(case.get("chooser")):
                chooser = case["chooser"](rng, env) if case.get("chooser_takes_env") else case["chooser"](rng)
            else:
                chooser = sched.random_chooser(rng, 0.55)
            S = sched.Sched(chooser, watchdog_s=40)
            clock.on_now = lambda ms: S.record("clock", ms)
            if case["topology"] == "shared":
                h = tablekit.load(loc)
                vstore.instrument_table(h, S)
                handles = {ai: h for ai in specs}
            else:
                handles = {}
                for ai in specs:
                    handles[ai] = tablekit.load(loc)
                    if case.get("lock") == "none":
                        handles[ai].metadata_manager.lock_provider = vstore.FreeLock(S, case.get("held_script", {}).get(ai))
                        vstore.instrument_storage(handles[ai].storage, S)
                    else:
                        vstore.instrument_table(handles[ai], S)
            if case.get("lock") == "takeover" and env is not None:
                # lease lapse events: while somebody is between validation and flip, the lock object is back-dated so that a
                # contender's takeover (conditional PUT on the observed ETag) succeeds
                import datetime as _dt
                inner = chooser

                def chooser(s, ready, _inner=inner):
                    if rng.random() < 0.25:
                        for k, o in env.fake.objects.items():
                            if k.endswith(".locks/metadata.lock"):
                                o.mtime = o.mtime - _dt.timedelta(seconds=120)
                    return _inner(s, ready)
                S.chooser = chooser
            # fence oracle (C08, sentence 2): who wrote the lock object last, by ACTOR (not by the id stored in it); a committer that looks
            # at the lock while it believes it holds it and the object is somebody else's has lost its lock — it must not flip the pointer
            lost_then_flipped = []
            if env is not None and case.get("lock") in ("real", "takeover") and case["topology"] != "shared":
                lockstate = {"owner": None, "stale": set()}

                def s3hook(phase, op, key, kw):
                    if phase == "before" and op == "get" and key.endswith(".locks/metadata.lock") and case.get("lock_get_fault_actor") == S.actor() \
                            and lockstate["owner"] not in (S.actor(), None):
                        # once its lock has been taken over, every read of the lock object by this committer fails transiently
                        raise fakes3.client_error("SlowDown", "GetObject")
                    if phase != "after" or not key.endswith(".locks/metadata.lock"):
                        return
                    a = S.actor()
                    if op == "put":
                        for b_ in handles:
                            if b_ != a and lockstate["owner"] == b_ and getattr(handles[b_].metadata_manager.lock_provider, "is_locked", False):
                                lockstate.setdefault("lost", set()).add(b_)     # b_'s lock object was just written over by another actor
                        lockstate["owner"] = a
                        lockstate["stale"].discard(a)
                    elif op == "delete":
                        lockstate["owner"] = None
                    elif op == "get" and a in handles and getattr(handles[a].metadata_manager.lock_provider, "is_locked", False) \
                            and lockstate["owner"] not in (a, None):
                        lockstate["stale"].add(a)
                env.fake.hook = s3hook
                for ai in handles:
                    lp_ = handles[ai].metadata_manager.lock_provider
                    o_acq = lp_.acquire

                    def acq_(*a_, _o=o_acq, _ai=ai, **k_):
                        lockstate.setdefault("lost", set()).discard(_ai)       # a NEW acquisition through the front door starts afresh
                        lockstate.setdefault("lost_at_fence", set()).discard(_ai)
                        return _o(*a_, **k_)
                    lp_.acquire = acq_
                    if hasattr(lp_, "is_held"):
                        o_held = lp_.is_held

                        def held_(_o=o_held, _ai=ai):
                            if _ai in lockstate.get("lost", ()):
                                # its lock object was written over by another actor BEFORE this fencing check (whatever the object says now)
                                lockstate.setdefault("lost_at_fence", set()).add(_ai)
                            r_ = _o()
                            if r_ and lockstate["owner"] not in (_ai, None):
                                lockstate["stale"].add(_ai)     # the fence said "held" although another committer owns the lock object
                                lockstate.setdefault("unsound", []).append(_ai)
                            return r_
                        lp_.is_held = held_
                for ai in handles:
                    st_ = handles[ai].storage
                    for mth in ("write_file", "write_file_cas"):
                        if hasattr(st_, mth):
                            o_ = getattr(st_, mth)

                            def w_(p_, *a_, _o=o_, _ai=ai, **k_):
                                r_ = _o(p_, *a_, **k_)
                                if str(p_).lstrip("/") == "metadata.version-hint.text" and (_ai in lockstate["stale"] or _ai in lockstate.get("lost_at_fence", ()) or (
                                        case.get("strict_fence") and lockstate["owner"] not in (_ai, None))):
                                    # strict_fence: schedules in which the takeover is complete BEFORE this committer resumes at its fence
                                    lost_then_flipped.append(_ai)
                                return r_
                            setattr(st_, mth, w_)
            if env is not None and case.get("gate_requests"):
                # scheduling points at S3 REQUEST granularity (a storage method may issue several requests)
                prev_hook = env.fake.hook

                put_fault = {"left": 1 if case.get("hint_put_fault") else 0}

                def req_hook(phase, op, key, kw, _prev=prev_hook):
                    if phase == "before" and S.actor() is not None and op != "put-body-sent":
                        S.gate(f"s3.{op}")
                        if put_fault["left"] and op == "put" and S.actor() == 1 and str(key).endswith("metadata.version-hint.text"):
                            put_fault["left"] -= 1      # the conditional pointer PUT times out in flight (it did not take effect)
                            raise fakes3.client_error("RequestTimeout", "PutObject")
                    if _prev is not None:
                        _prev(phase, op, key, kw)
                env.fake.hook = req_hook
            restore = _patch_sleep(S)
            try:
                with _NoBackoff(S):
                    res = S.run({ai: _tx_callable(handles[ai], specs[ai]) for ai in specs})
            finally:
                restore()
                clock.on_now = None
            acks = {ai: (r[0] == "ok" and r[1] is not False) for ai, r in res.items()}
            errs = {ai: type(r[1]).__name__ for ai, r in res.items() if r[0] == "raise"}
            rep.evaluations += 1
            rep.distribution[f"{backend}/{case['topology']}/{case['clock']}"] += 1
            for e in errs.values():
                rep.distribution["raise:" + e] += 1
            case_rec = {"kind": "schedule", "backend": backend, "topology": case["topology"], "clock": case["clock"],
                        "txs": [specs[a]["kind"] for a in sorted(specs)], "schedule": list(S.schedule), "acks": acks, "errors": errs}
            if len([a for a in S.schedule]) and len(set(S.schedule[i] != S.schedule[i + 1] for i in range(len(S.schedule) - 1))) > 1:
                rep.nontrivial(["c01", case_rec["schedule"], case_rec["txs"], backend, case["clock"]])
            # ---------------- correspondence: abstract trace accepted by the model
            if model_ok and not case.get("no_model"):
                ab = occtrace.Abstractor(p0[1], md0)
                toks = occtrace.render(ab.abstract(S.events, backend == "s3cas"), md0["last_updated_ms"])
                kinds = ",".join(f"{ai}:{'s' if specs[ai]['kind'] in ('append', 'delfiles') else 'm'}" for ai in sorted(specs))
                cfg_s = case.get("model_cfg") or MODEL_CFG[backend]
                req = f"occ.trace {cfg_s} kinds={kinds} now={md0['last_updated_ms']} lu0={md0['last_updated_ms']} | " + " ".join(toks)
                reply = driver.ask([req])[0]
                rep.corr_cases += 1
                if not reply.startswith("ok"):
                    rep.diverge("occ.trace (MetadataManager.commit / Transaction.commit)", {"request": req, **case_rec}, reply, "trace of the implementation")
                else:
                    model_acks = {int(f.split(":")[0]) for f in reply.split("flips=")[1].split(" ")[0].split(",") if f}
                    if model_acks != {a for a, ok in acks.items() if ok}:
                        rep.diverge("occ.trace acknowledgements", {"request": req, **case_rec}, sorted(model_acks), acks)
                if case["id"] == 0:
                    rep.sample({"trace": req[:600], "reply": reply})
            # ---------------- property oracle on the implementation (independent reader)
            v = reader.view(store)
            final_rows = v["rows"]
            final_snaps = {s["id"] for s in v["snaps"]}
            problems = []
            for ai in lost_then_flipped:
                problems.append(f"lost-lock: actor {ai} flipped the pointer although its lock had been taken over by another committer before its fencing check")
            for ai, sp in specs.items():
                ok = acks[ai]
                if sp["kind"] in ("append", "append+expire"):
                    keys = [reader.rowkey(r) for r in sp["rows"]]
                    n = sum(final_rows.count(k) for k in keys)
                    if ok and n != len(keys):
                        problems.append(f"acknowledged append of actor {ai} is reflected {n}/{len(keys)} times")
                    if not ok and n:
                        problems.append(f"append of actor {ai} raised but is reflected")
                elif sp["kind"] == "append2":
                    for i_, rows_ in enumerate(sp["parts"]):
                        keys = [reader.rowkey(r) for r in rows_]
                        n = sum(final_rows.count(k) for k in keys)
                        done_ = sp.get("done", [False, False])[i_]
                        if done_ and n != len(keys):
                            problems.append(f"acknowledged append #{i_ + 1} of actor {ai} is reflected {n}/{len(keys)} times")
                        if not done_ and n:
                            problems.append(f"append #{i_ + 1} of actor {ai} raised but is reflected")
                elif sp["kind"] == "delsnap":
                    present = sp["snapshot"] in final_snaps
                    expired = any(acks[b] and (specs[b]["kind"] == "expire" or (b != ai and specs[b]["kind"] == "delsnap" and specs[b]["snapshot"] == sp["snapshot"])) for b in specs)
                    if ok and present:
                        problems.append(f"acknowledged delete_snapshot of actor {ai} is not reflected (snapshot still listed)")
                    if not ok and not present and not expired:
                        problems.append(f"delete_snapshot of actor {ai} raised but the snapshot is gone")
                elif sp["kind"] == "delfiles":
                    rows_of = [reader.rowkey(r) for r in reader.read_rows(store, sp["path"].lstrip("/"))]
                    n = sum(final_rows.count(k) for k in rows_of)
                    same_file = [b for b in specs if specs[b]["kind"] == "delfiles" and specs[b]["path"] == sp["path"] and acks[b]]
                    if ok and n:
                        problems.append(f"acknowledged delete_files of actor {ai} is not reflected")
                    if not ok and not n and not same_file:
                        problems.append(f"delete_files of actor {ai} raised but the file's rows are gone")
                elif sp["kind"] == "expire":
                    old = [s["snapshot_id"] for s in md0["snapshots"] if s["timestamp_ms"] < sp["cutoff"] and s["snapshot_id"] != md0["current_snapshot_id"]]
                    if ok and any(o in final_snaps for o in old) and not any(specs[b]["kind"] in ("append", "delfiles") for b in specs):
                        problems.append(f"acknowledged expiry of actor {ai} is not reflected")
            for k in [reader.rowkey(r) for r in init_rows]:
                deleted = any(acks[b] and specs[b]["kind"] == "delfiles" for b in specs)
                if final_rows.count(k) != 1 and not deleted:
                    problems.append("an initial row is missing or duplicated")
                    break
            # a commit reflected TWICE shows as a data file listed twice (scans de-duplicate by path, so rows alone would hide it)
            for s_ in v["snaps"]:
                if s_["id"] == v["cur"] and len(set(s_["files"])) != len(s_["files"]):
                    problems.append("a data file is listed twice by the current snapshot (a commit applied twice)")
            # (the NUMBER of new snapshots is not judged: an attempt that landed while its committer was told "conflict" is retried and may
            # leave an additional snapshot that adds nothing — the table content, which is what the property speaks about, is unaffected)
            # chain: linear parents, strictly increasing sequence numbers
            seqs = sorted((s["seq"], s["id"]) for s in v["snaps"])
            if len({q for q, _ in seqs}) != len(seqs):
                problems.append("duplicate sequence numbers among retained snapshots")
            byid = {s["id"]: s for s in v["snaps"]}
            for s in v["snaps"]:
                if s["parent"] not in (None, -1) and s["parent"] in byid and byid[s["parent"]]["seq"] >= s["seq"]:
                    problems.append("a parent does not have a smaller sequence number")
            kids = {}
            for s in v["snaps"]:
                if s["parent"] not in (None, -1):
                    kids.setdefault(s["parent"], []).append(s["id"])
            if any(len(c) > 1 for c in kids.values()):
                problems.append("snapshot chain is not linear (a snapshot has two children)")
            for pr in problems:
                sig = "C01:" + ("lost-update" if "not reflected" in pr or "missing" in pr or "is reflected 0/" in pr else "anomaly") + ":" + pr.split(" of actor")[0].replace(" ", "-")
                if "not reflected" in pr and case["clock"] in ("frozen", "coarse") and all(specs[a]["kind"] in ("delsnap", "expire") for a in specs):
                    sig = "C01:metadata-only-commits-equal-millisecond-stale-base"
                if pr.startswith("lost-lock"):
                    sig = "C08:committer-that-lost-its-lock-flipped-the-pointer"
                rep.violate(sig, f"{backend}/{case['topology']}/{case['clock']} clock, txs {case_rec['txs']}: {pr}", case_rec)
    finally:
        if env:
            env.__exit__(None, None, None)
        shutil.rmtree(path, ignore_errors=True)


def _stale_base_chooser(rng):
    """actor 1 reads its base, then actor 2 commits completely, then actor 1 goes on"""
    def choose(s, ready):
        a1_based = any(a == 1 and w.startswith("read_file meta") for a, w in s.trace)
        if not a1_based and 1 in ready:
            return 1
        if 2 in ready:
            return 2
        return sorted(ready)[0]
    return choose


def _other_after_k(k):
    """actor 1 passes k gated operations, then actor 2 commits completely, then actor 1 goes on"""
    def mk(rng):
        def choose(s, ready):
            n1 = len([1 for a, _w in s.trace if a == 1])
            if n1 < k and 1 in ready:
                return 1
            if 2 in ready:
                return 2
            return sorted(ready)[0]
        return choose
    return mk


def cases(ctx):
    rng = ctx.rng("cases")
    out = []
    # ONE transaction doing two things (append + expiry): another committer's whole commit after each k-th gated operation of it
    for k in range(0, 45, 1 if (ctx.thorough or ctx.intensify) else 4):
        out.append({"backend": "local", "topology": "separate", "clock": "real", "actors": 2, "kinds": ["append+expire", "append"],
                    "chooser": _other_after_k(k), "no_model": True})
    # directed: the stale-base window with equal-millisecond clocks, metadata-only and data commits
    for kinds in (["delsnap", "delsnap"], ["expire", "delsnap"], ["append", "append"], ["delsnap", "append"], ["delfiles", "delfiles"]):
        for clock in ("frozen", "real"):
            out.append({"backend": "local", "topology": "separate", "clock": clock, "actors": 2, "kinds": kinds, "chooser": _stale_base_chooser})
    out.append({"backend": "s3cas", "topology": "separate", "clock": "frozen", "actors": 2, "kinds": ["delsnap", "delsnap"], "chooser": _stale_base_chooser})
    # file deletes / appends of two committers that meet in ONE manifest (the loser of the race retries on a base whose manifests were rewritten)
    for kinds in (["delfiles", "delfiles"], ["delfiles", "append"], ["delfiles", "delfiles", "delfiles"]):
        for backend in ("local", "s3cas"):
            out.append({"backend": backend, "topology": "separate", "clock": "real", "actors": len(kinds), "kinds": kinds, "chooser": _stale_base_chooser,
                        "shared_manifest": True, "no_model": True})
    n = ctx.budget(40, 1500)
    for _ in range(n):
        actors = rng.choice([2, 2, 3, 3, 4])
        out.append({"backend": rng.choice(["local", "local", "s3cas"]), "topology": rng.choice(["separate", "shared"]),
                    "clock": rng.choice(["frozen", "coarse", "real"]), "actors": actors,
                    "kinds": [rng.choice(["append", "append", "delsnap", "expire", "delfiles"]) for _ in range(actors)]})
    for i, c in enumerate(out):
        c["id"] = i
    return out


def run(ctx, model_ok):
    rep = Report()
    rep.rule = ("2–4 committers (threads running the real library) × {append, delete files, expire, delete snapshot} × {separate handles, "
                "shared handle} × {local, CAS-S3 (in-memory)} × {frozen, coarse, real} clocks, interleaved at storage-operation granularity by "
                "a seeded scheduler; directed stale-base schedules first. Every run's trace must be accepted by the Lean transition system and "
                "its final table must be serializable w.r.t. the acknowledgements. non-trivial = the schedule actually interleaves actors.")
    base = scratch_dir("c01-")
    try:
        for c in cases(ctx):
            try:
                run_case(ctx, rep, c, base, model_ok)
            except sched.Stuck as e:
                rep.notes.append(f"case {c['id']} stuck: {e}")
                rep.distribution["stuck"] += 1
    finally:
        shutil.rmtree(base, ignore_errors=True)
    return rep


def replay(ctx, case):
    rep = Report()
    base = scratch_dir("c01r-")
    c = {"backend": case["backend"], "topology": case["topology"], "clock": case["clock"], "actors": len(case["txs"]), "kinds": case["txs"],
         "id": 0, "chooser": lambda rng: sched.replay_chooser(case["schedule"])}
    run_case(ctx, rep, c, base, driver.available())
    shutil.rmtree(base, ignore_errors=True)
    return (not rep.violations), "; ".join(v["what"] for v in rep.violations) or "no violation on replay"
