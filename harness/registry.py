"""Per-property registration used to generate MANIFEST.json (tools/mkmanifest.py)."""

COMMON_NOTE = ("Trusted base: Lean 4.33 kernel; axioms ⊆ {propext, Classical.choice, Quot.sound} (audited each run); "
               "hand-written executable model tied to /repo by the correspondence run in the same check; "
               "generated tables and call skeletons of the protocol functions, regenerated from the source on every run (harness/gen_tables.py, harness/gen_skeleton.py; source_* theorems). ")

CLAIMED = {
    "C09": {
        "text": "Theorems (Lean, over EVERY history of any length of {commit = append / delete / both with optional expiry, expire, delete "
                "snapshot, failed commit with or without cleanup, collection with ANY candidate set}, by induction with an invariant): "
                "snapshot_content_stable — every retained snapshot reads back exactly the data-file list recorded at its commit; "
                "committed_frozen — that record is never changed later; time_travel_stable — a snapshot retained at two points of a history "
                "reads the same at both; commit_spec — a commit records the base snapshot's files minus exactly the deleted ones plus exactly "
                "the new ones; gc_keeps_retained — a collection leaves every retained snapshot's content unchanged; md_wf + lookup_by_id_content, "
                "lookup_by_timestamp_hist (non-decreasing clock, equal timestamps allowed: most recently committed retained snapshot not newer "
                "than t), delete_current_repoints_hist (most recently committed survivor) on every reachable state; inplace_rewrite_breaks, "
                "curonly_gc_breaks — kernel-checked witnesses that the two mutations the property's rationale names (in-place manifest rewrite, "
                "collection protecting only the current snapshot) violate it. Tie: real-table histories replayed step by step on hist.run: "
                "retained snapshots, current pointer, manifest structure of every retained snapshot (carried by reference / rewritten / "
                "dropped), unreferenced-file counts. Oracle: after every step every retained snapshot re-read by the independent reader "
                "(bytes → rows) and through the library's file manager vs the record made at its commit; timestamp lookups at every retained "
                "timestamp ±1; current pointer after deleting the current snapshot."
                " Also: commit_keeps_snapshots, failed_and_gc_keep_metadata, expiry_exact, metadata_log_bound_is_not_a_snapshot_bound — a snapshot leaves the table only through an expiry (older than the cutoff, never the current one) or an explicit deletion; oracle clause for it, scripted histories with a clock stepping back across an expiry, markers of committed transactions left behind for days, a metadata-log bound.",
        "design_ref": "§6 C09",
        "note": "Rows are not modelled separately from data files (write-once; the oracle re-reads the bytes). One actor at a time; "
                "snapshot ids fresh. Local backend.",
        "technique": "Lean 4 invariant proofs over unbounded histories (metadata algebra × write-once file plane) + step-by-step history correspondence and re-read oracle",
    },
    "C11": {
        "text": "Theorems (Lean): schema_arg_sound — an accepted schema argument IS the table's schema, field by field, ids and order "
                "included (sig_injective); append_keeps_scans — after ANY history of appends, accepted or rejected, with arbitrary schema "
                "arguments and batches (induction over the history), every data file has the table's column layout and its column bounds "
                "under the table's field ids, so full scans concatenate and pruning is sound; append_exact — an accepted append adds exactly "
                "the supplied records (absent optional columns as None); append_validated / append_values_exact — every record of an accepted "
                "batch names only schema fields, has every required field non-None and only accepted values; append_reject_frame — a rejected "
                "append has a reason and no resulting state; guard_covers_lossy — for EVERY value (all attribute combinations) anything pyarrow "
                "would alter silently is refused by the validator; grid_lossy_spec / coerce_faithful — on the measured grid (11 column types × "
                "93 value classes) pyarrow alters a value exactly where the specification says and every accepted pair converts exactly; "
                "old_accepts_reordered / old_accepts_renumbered / old_history_breaks_scan / old_fits_lossy — machine-checked witnesses of the "
                "five defects found and repaired (2f24707, 8fbd14f). Tie: ap.fits / ap.arrow / ap.guard / ap.schema / ap.batch — the validator, "
                "pyarrow's conversion (re-measured each run on the installed pyarrow), schema-argument acceptance and batch acceptance of the "
                "real library vs the model on the whole grid. Oracle: whole grid × optional/required, 10 schema-argument variants × fresh / "
                "reused handle × schema id, 8 record shapes in two-record batches; accepted → read back exactly through same and fresh "
                "handle incl. per-column filtered scans; rejected → snapshots, rows and reachable files unchanged. all_queued_appends_committed / queued_appends_exact — every file of every append queued in one transaction reaches the commit in queue order (TxOps model of the partition loop; witness last_append_only_loses_rows; tie tx.partition); oracle also: large appends (999–4321 rows), multi-operation transactions, pre-built files with the same base name / offered again after a rejection, the handle's state after a rejected append."
                " A batch rejected because of a later member leaves nothing queued: committing the same transaction afterwards publishes none of its files."
                " Equal base names in two directories through every read path; format tags other than parquet.",
        "design_ref": "§6 C11",
        "note": "Values are abstracted to value classes; what 'exactly as supplied up to the declared type's representation' means per type is "
                "the harness function represents() (tz-aware datetimes keep their instant; bytes↔str, int→float when exactly representable). "
                "pyarrow's conversion is a measured table, re-measured on every run.",
        "technique": "Lean 4 theorems (induction over append histories; attribute-level lemma; whole-grid decision tables) + exhaustive grid correspondence and read-back oracle",
    },
    "C14": {
        "text": "Theorems (Lean; the quantifier file kind × damage class × touched × checksum option is finite, proved over the whole table): "
                "damaged_touched_raises — a missing / unparseable / transiently failing manifest list, manifest or data file, or an unparseable "
                "/ transiently failing metadata file, makes every read API that touches it raise; never_subset — no read answers with anything "
                "but the undamaged result except in the named cases; checksum_detects — with verification on any change to a data file's bytes "
                "raises; untouched_same; damaged_touched_raises_refuted — machine-checked witness of the known finding (current metadata file "
                "missing → an older version is served), replayed on every read API. Tie/oracle: every file reachable from the current snapshot of "
                "a 4-commit table × 12 damage classes + transient error × 7 read APIs/options on the real library; the damage class is judged by "
                "an independent parse; observed outcome compared with rd.outcome."
                " Snapshot-inspection getters (current_snapshot, snapshots, time_travel) among the read APIs; valid-JSON-but-not-a-manifest bytes."
                " A checksum-less pre-built file next to checksummed ones; content changing between two reads of one scan.",
        "design_ref": "§6 C14",
        "note": "Parsers (json, fastavro, pyarrow) are classified by observation; damages that still parse with different content on metadata-plane "
                "files (no checksum there) and unverified altered data bytes are outside the statement.",
        "technique": "Lean 4 decision-table theorems (whole finite table) + exhaustive damage × API sweep",
    },
    "C17": {
        "text": "Theorems (Lean, over arbitrary strings): resolve_inside — any path the resolver accepts ('..', '.', empty components, doubled "
                "slashes, absolute-looking input) has the root as a COMPONENT-WISE prefix; resolve_clean — the accepted path is canonical, so "
                "what is opened is what was checked; abs_is_relative — '/etc/passwd' is resolved under the root, never honoured as a system "
                "path; arrow_inside — both branches of the read path end inside; string_prefix_is_wrong — witness that a string-prefix test "
                "admits the sibling /wh2 for /wh. Tie: _resolve_path vs the lexical model on an exhaustive component grammar (symlink-free). "
                "Oracle on a REAL filesystem with symlinks inside the root pointing inside and outside, a sibling-prefix directory and the root "
                "reached directly or through a symlink: exhaustive path grammar × 15 read + 5 mutating entry points under a Python audit hook "
                "(every open / listdir / remove / rename / mkdir resolved with realpath) + fingerprint of a sentinel tree outside the root."
                " S3: s3_key_under_prefix, s3_key_literal (every requested key lies under the table prefix, nothing is normalised), normalised_key_escapes (witness); tie path.s3key; every S3 entry point on an exhaustive path grammar with two tables sharing a bucket. Escaping oracle decided by the operating system's meaning of the path (realpath): '<symlink>/..' spellings and absolute paths through inside symlinks must be rejected."
                " s3:// spellings; write_data_file among the mutating entry points; deleting the last entry under a bare root.",
        "design_ref": "§6 C17",
        "note": "Symlink resolution (os.path.realpath / the kernel's walk) is an assumed contract exercised on the real filesystem, not modelled; "
                "TOCTOU is outside the quantifier; S3 keys are literal strings under the table prefix (modelled and tied).",
        "technique": "Lean 4 theorems on lexical path resolution + exhaustive real-filesystem sweep with an audit hook",
    },
    "C03": {
        "text": "Theorems (Lean; process death = any prefix of the operation's syscall trace, for a commit writing ANY number of files): "
                "crash_pre — before the pointer's rename the pointer path is unchanged (pre-state); crash_foreign_untouched — at every prefix "
                "every path the commit does not own is as visible as before (all earlier snapshots stay readable); crash_post — from the "
                "pointer's rename on every file the new version references is present with full content (post-state readable); "
                "crash_lower_atomic — within one atomic write the target changes only at the rename; the literally-unchanged variant is refuted "
                "and kept as a theorem. Oracle: REAL crash images — the table directory copied before EVERY os-level call the library makes "
                "(temp creation, write, fsync, close, rename, unlink, directory fsync) during create / append / delete-files / expire / "
                "delete-snapshot / collect, plus truncated-temp-file variants inside the parquet write; each image re-read by the independent "
                "reader and the library, appended to, and collected (only unreachable leftovers may go, none may stay)."
                " Object storage: crash images at every mutating request of create / append / delete (both commit paths) with the dead writer's lock left behind; a dead holder's lock is taken over through the real acquire loop once its lease lapsed (Lean: dead_holder_taken_over in Props/C19).",
        "design_ref": "§6 C03",
        "note": "Process death only (power loss is C16); rename atomicity and flock release on death are kernel contracts; a death inside pyarrow's "
                "C++ writer is represented by truncated temp files.",
        "technique": "Lean 4 theorems over syscall-trace prefixes + exhaustive real crash images",
    },
    "C16": {
        "text": "Theorems (Lean, power-loss model: only fsync'ed content and directory entries persisted by a directory fsync survive): "
                "atomic_write_durable — after temp/write/fsync/rename/dir-fsync the target is durable; durable_stable; lower_atomic; "
                "commit_durable — for ANY number of files written by a commit, at every prefix of the syscall trace at or after the pointer's "
                "rename every referenced file is durable with full content and persisted directory entry (stated through an executable judge); "
                "judge_sound — the judge means exactly that. Tie/oracle: every operation type × several table sizes is run in a child process "
                "under strace (sees pyarrow's C++ parquet writes); the proved-sound Lean judge is evaluated on EVERY prefix of the REAL trace, "
                "and each written file's event sequence is compared with the model's lowering. Witness examples show the judge rejecting a "
                "missing file fsync, a missing directory fsync and a pointer written first. fsync_failure_no_flip — when the fsync of ANY referenced file fails (every number of files, every failing position) the commit trace contains no rename onto the pointer; checked on the library by failing the k-th file fsync of append / two-append / delete commits for every k."
                " Object storage: every PUT of a commit broken once AFTER its body went out (a stream body is consumed): an acknowledged operation reaches only complete objects. Two threads through ONE Table object with overlapping commits judged at the second thread's pointer flip."
                " write(2) taking part of the buffer; library environment switches discovered from the source pinned to falsy values; the commit after a transient directory-fsync failure; a caller-written pre-built file.",
        "design_ref": "§6 C16",
        "note": "Disk/kernel honour fsync (assumed). Pre-existing files are taken as durable; ancestor directories' durability is an assumption (§7).",
        "technique": "Lean 4 theorems on a power-loss model + a proved-sound judge run on real strace traces",
    },
    "C04": {
        "text": "Theorems (Lean; the quantifier is finite by nature, so they are proved over the WHOLE table backend × call style × phase of the "
                "fault × kind × has-own-files by kernel evaluation): referenced_present — the transaction's files are never deleted once the "
                "pointer names the version referencing them; outcome_sound; storage_error_is_pre; ambiguous_keeps_files; "
                "post_commit_faults_are_silent; referenced_present_refuted — machine-checked witness of the defect found (interrupt after the "
                "flip in a with-block), replayed on the library on all three backends, then repaired. Tie/oracle: EVERY single fault (exception "
                "before effect, exception after effect on object storage, KeyboardInterrupt; SystemExit in thorough) at EVERY storage and lock "
                "call of append / delete-files / expire / delete-snapshot commits on local, CAS-S3 and non-CAS S3, context-manager and explicit "
                "style; after each run an independent re-read of every retained snapshot, pre/post classification, fate of the transaction's "
                "files, follow-up append; outcome triple compared with cf.outcome. body_failure_never_commits — however the body of a with-block fails (Exception or interrupt) __exit__ never commits; reuse_deletes_only_own_attempt — a re-begun Transaction deletes on a clean failure exactly the files of THAT attempt (+ witnesses for the Exception-only exit and the missing reset); ties cf.exit / cf.reuse; oracle also: the metadata lock is released on every way out, non-OSError store errors, interrupt inside the with-body, reuse after an ambiguous commit."
                " Failed / interrupted / rolled-back transactions that had queued pre-built files (a file of a retained snapshot re-added) keep those files.",
        "design_ref": "§6 C04",
        "note": "Faults are injected at storage/lock call boundaries (an interrupt between two bytecodes of pure bookkeeping is equivalent to one "
                "at the next boundary); double faults are not enumerated.",
        "technique": "Lean 4 decision-table theorems (whole finite table) + exhaustive single-fault enumeration on the real library",
    },
    "C02": {
        "text": "Theorems (Lean): read_is_snapshot / api_is_snapshot — for every timeline of committed versions and every pair of instants inside "
                "a read's interval, every read API returns (a function of) the rows of exactly ONE version that was current inside the interval "
                "and never raises (repaired reader); read_is_snapshot_refuted — machine-checked witness of the defect found (two refreshes), "
                "replayed on every read API, then repaired; monotone_reads — in the commit transition system of C01 the flips seen by an earlier "
                "pointer read are an initial part, in commit order, of those seen by any later read, for every schedule. Tie: 1–2 real readers "
                "× 1–3 real writers (append, two-append transaction, delete, rollback, failed commit) under the deterministic scheduler; each "
                "read's pointer-read positions on the flip timeline are fed to the reader model which must predict the result; oracle: result = "
                "row multiset of one version current during the read (independent reader), per-handle order monotone, two-append transaction "
                "visible all-or-nothing."
                " Object storage: a reader reading after EVERY request of a commit, incl. a pointer PUT that lands while its answer is lost."
                " Two reads through one Table object with a commit between.",
        "design_ref": "§6 C02",
        "note": "Immutability/presence of files of versions that were ever current is C01/C05/C06/C09's business and is exercised here by the oracle.",
        "technique": "Lean 4 theorems over a pointer-timeline reader model + suffix-monotonicity in the OCC system; scheduled readers×writers",
    },
    "C06": {
        "text": "Theorems (Lean, unbounded: one collection run × any number of transactions, every interleaving): gc_concurrent_safe — with the "
                "markers loaded before the metadata, every file referenced by a snapshot committed before, during or after the run exists and "
                "was never deleted by the collector, even if it was already older than the grace period when it committed; inflight_protected; "
                "metadata_first_refuted — machine-checked witness of the defect found (metadata read before marker load), replayed on the real "
                "collector under the scheduler, then repaired. Tie: real garbage_collect × 1–2 real transactions with aged data files, "
                "rollbacks, at storage-operation granularity; the abstract trace replayed on the model must yield the same deleted set; oracle: "
                "every file of every snapshot of the final metadata exists. prebuilt_unmarked_refuted — witness of the repaired defect c834a8f (a pre-built file queued without a marker is deleted and then committed); sweeps: whole collection after each gated operation of a commit at grace 0 (append, partial delete, failed marker write, pre-built file flat / nested), of a retrying commit, two collections around one long transaction, aged markers."
                " A reused Transaction object queuing the same pre-built file again after a rollback; a collection right after the data-file write."
                " late_adoption_refuted — Lean witness of the OPEN finding: a transaction that starts during the run and adopts an old pre-built file (excluded from gc_concurrent_safe by hypothesis; swept on the real code: whole transaction after each gated op of the collector).",
        "design_ref": "§6 C06",
        "note": "Assumes the grace period exceeds the run and a live transaction is younger than the abandonment timeout; file names are fresh.",
        "technique": "Lean 4 invariant over the collector×transactions transition system + trace replay of scheduled real executions",
    },
    "C07": {
        "text": "Theorems (Lean, unbounded: any number of snapshots, manifests, markers and listed files, ANY combination of failing storage "
                "calls): abort_deletes_nothing — a collection that raises has deleted nothing; untrusted_never_deletes — a failing metadata "
                "read, a hint naming a missing file, an unreadable manifest list or manifest, a failing marker or prefix listing or a listed path "
                "outside the table make it raise with nothing deleted; fault_never_deletes_live — a completed run deleted no reachable file and "
                "no file whose marker is fresh, cannot be stat'ed, cannot be removed or cannot be read; collects_orphans (liveness). Four "
                "regression-witness theorems state the four defects found in the code as found (swallowed marker listing, data-only payload "
                "fallback, sweep before listing, dangling hint), each replayed on the real collector and repaired. Tie: the REAL "
                "GarbageCollector.collect runs on a fully scripted environment realising random abstract inputs and must agree with gc.run; "
                "oracle: every single fault at every storage call of a real run, every corruption class of every reachable metadata-plane file, "
                "escaping listings, marker faults."
                " Error classes FileNotFoundError / PermissionError / TimeoutError on marker reads; corruption classes that are VALID JSON but not a file of the kind ('{}', '[]', 'null', metadata JSON without its snapshots / current-snapshot fields)."
                " Directory scans failing below the storage interface (os.scandir); a nested pre-built file held by the open transaction; every fault on an input of the reachability decision must raise.",
        "design_ref": "§6 C07",
        "note": "Fault = exception before effect on the local backend; parser result classes (missing/truncated/garbage/empty/transient) observed.",
        "technique": "Lean 4 theorems over the collector's decision function (all fault combinations) + correspondence on scripted environments",
    },
    "C18": {
        "text": "Theorems (Lean, unbounded: any number of creators/openers, every interleaving): identity_preserved — from ANY initial storage on "
                "which a table is resolvable (healthy, pointer lost, first version without pointer, dangling/stale pointer with files) nothing is "
                "initialised, no file written, the pointer untouched and every caller ends on that table, whatever the lock and backend; one_init "
                "— from nothing with an excluding lock at most one initialisation and one initial version, all finished callers on it; "
                "one_init_cas — with create-if-absent and NO lock assumption at most one initialisation takes effect and the pointer is never "
                "replaced; witnesses for the two windows that need the lock. Tie: real create_table / load_table / first-append callers run as "
                "threads under the scheduler on local and in-memory CAS S3 from four initial states; every trace accepted by create.trace; "
                "oracle on identity, rows and persisted schema; schema-persistence semantics checked directly."
                " Pointer lost on a table whose version number has two digits (numeric, not lexicographic, recovery)."
                " Creators bringing different schemas; aftermath: pointer lost after the race, schema-less append through every handle.",
        "design_ref": "§6 C18",
        "note": "Recovery's mtime tie-break is modelled as write order; a first appender's commit itself is C01's protocol.",
        "technique": "Lean 4 invariants over the creation transition system + trace acceptance of scheduled real executions",
    },
    "C19": {
        "text": "Theorems (Lean, unbounded: any number of contenders, every interleaving incl. deaths and clock jumps). Local lock: flock_mutex — "
                "at most one FileLock instance believes it holds the lock and that belief is backed by a kernel flock on the inode the path "
                "names; death_releases; timeout_bound — success only through a successful flock, TimeoutError exactly once the deadline has "
                "passed with the lock busy; no_success_while_held; unlink_breaks_mutex (why the file is never unlinked). S3 CAS lock: "
                "takeover_only_after_lease; superseded_observes_loss; held_answer_sound; owned_object_persists_partial (conditional delete) and "
                "owned_object_persists_refuted — the machine-checked witness of the release-spans-takeover defect, replayed on the real "
                "S3LockProvider (known finding). Tie: real FileLock instances on the REAL kernel and the real S3LockProvider on the in-memory S3 "
                "run under the scheduler with a virtual clock and are compared step by step with lock.frun / lock.srun; 8-process stress. s3_timeout_bound — a contender blocked for its whole timeout gets TimeoutError in [timeout, timeout + one poll interval] for every sequence of jitter draws (pollLoop tied to the real acquire loop via lock.poll); unclamped_backoff_overshoots — witness for an unclamped exponential back-off. Open()→flock() gap sweep and lock-file identity on the real kernel."
                " dead_holder_taken_over / live_holder_not_taken_over (one undisturbed acquisition pass takes a lapsed lock over, and leaves a live one alone); is_held across a takeover with scheduling points between calls that make no request; environment-flag capitalisation selects the same lock provider."
                " Process time zones for lease arithmetic; wall clock stepping under a blocked FileLock acquirer.",
        "design_ref": "§6 C19",
        "note": "Kernel flock semantics are an assumed contract sampled every run on the real kernel; the S3 heartbeat thread is replaced by a "
                "schedulable renew event; the polling (non-CAS) provider is documented best-effort and not claimed.",
        "technique": "Lean 4 invariants over two lock transition systems + step-by-step correspondence with the real lock classes",
    },
    "C01": {
        "text": "Theorems (Lean, unbounded: any number of committers, every interleaving of their storage-level steps, any clock incl. 0-ms "
                "ticks and stale readings, data and metadata-only commits): serial — every pointer flip replaced exactly the version its new "
                "version was derived from, the flips form one chain and the pointer names its head (local backend with exclusive lock, and CAS "
                "backend with nothing assumed about the lock); final_is_fold — the table named by the pointer is the fold of the flipped "
                "transactions in pointer order; ack_iff_flip — reflected iff past the commit point, never twice. serial_refuted is the "
                "machine-checked witness of the defect found (equal-millisecond stamp) and was replayed on the library, then repaired. "
                "Tie: real committers run as threads under a deterministic scheduler at storage-operation granularity (local and in-memory "
                "CAS S3, shared and separate handles, frozen/coarse/real clocks); every trace must be accepted step by step by the Lean "
                "transition system (values read, stamps written, outcomes) and the final table must be serializable w.r.t. acknowledgements."
                " The virtual clock is bound in every datashard module that names `datetime` (a change that derives ids from the clock is exercised under frozen clocks)."
                " Committers meeting in one manifest; append+expire in one transaction; duplicate-listing oracle.",
        "design_ref": "§6 C01",
        "note": "Exclusive-lock hypothesis for the local backend is C19's theorem + the kernel's flock contract. Manifest-level content of commits is "
                "checked by the oracle (independent reader), the model abstracts a version to (stamp, applied transactions).",
        "technique": "Lean 4 invariant over a transition system (all interleavings) + trace acceptance of scheduled real executions",
    },
    "C08": {
        "text": "Theorems (Lean, unbounded): ack_replaced_validated — on a CAS backend whose ETag comes from the read that validation used, "
                "with NO assumption on the lock (a lock granting everyone subsumes paused holders, lapsed leases, takeovers; a delayed PUT is a "
                "late flip step), every acknowledged flip replaced the version it validated against and was derived from; "
                "lost_lock_is_conflict — a failed fencing check yields a conflict, no flip. two_reads_refuted is the machine-checked witness of "
                "the defect found (validation read ≠ ETag read), replayed on the library with a no-exclusion lock, then repaired. Tie: scheduled "
                "real committers on the in-memory CAS S3 with a free lock / the real CAS lock / injected lease lapses; trace acceptance + "
                "serializability oracle."
                " One writer object committing twice in a row × the other committer's whole commit before each request; first accesses to a table in the legacy pointer format."
                " A lock taken over and released again (nothing committed) before the superseded committer's fence.",
        "design_ref": "§6 C08",
        "note": "S3 conditional-PUT semantics are those of harness/fakes3.py; the lock object's own protocol is C19's subject.",
        "technique": "Lean 4 invariant over the CAS transition system with an arbitrary lock + trace acceptance of scheduled real executions",
    },
    "C15": {
        "text": "Theorems (Lean, unbounded): wf_step / wf_history — every committed operation (append or delete commit with or without expiry, "
                "expiry alone, snapshot deletion, any retention value, any metadata-log bound, any — also out-of-order or equal — timestamps) "
                "preserves: current ∈ retained or table empty; ids distinct; every parent a retained, strictly older TRUE ancestor (ghost "
                "history) or nothing; sequence numbers ≤ last and strictly increasing in commit order; snapshot log ⊆ retained in commit order; "
                "lifted by induction to every history. repoint_correct for every forest incl. cycles/dangling parents; current_never_expired; "
                "mlog_bounded; rewrite_preserves_origin + delete-exactness; last_seq_monotone. Correspondence: the real repoint / retention / "
                "expiry / delete_snapshot / metadata-log code vs the model on all forests ≤3 (4 sampled) and on whole real-table histories "
                "step by step; an independent invariant checker reads the JSON and manifests after every step. all_queued_deletes_applied / queued_deletes_exact / one_commit_shape — every path of every delete queued in one transaction is deleted, nothing else, and a transaction is committed in one shape (tx.partition tie); mlog_trimmed for a lowered bound; oracle also: retried commits, commits under a stale pointer, rewrite of a rewritten manifest, deleting current / oldest / interior snapshots then committing, retention under a clock stepping back, any-clock timestamp lookups."
                " A data file listed by two manifests (queued again through the file-level API) is deleted from both."
                " Pre-built pairs with equal base names and both spellings of a table-relative path; one of them deleted.",
        "design_ref": "§6 C15",
        "note": "Snapshot ids assumed fresh (random 63-bit ids). Manifest-rewrite model is at entry level; Avro encoding observed via the independent reader.",
        "technique": "Lean 4 invariant by induction over operations (WF) + algebraic theorems; model/implementation correspondence on histories",
    },
    "C05": {
        "text": "Theorems (Lean, unbounded, over arbitrary strings): norm_agrees / norm_agrees_abs — for every table-location spelling the "
                "listed form, the Iceberg-style form and the absolute form of a library file normalise to the same path; gc_safe — for every "
                "listing, grace decision and set of manifest/marker spellings no listed file denoted by a reachable or protected entry is "
                "deleted; gc_live — an unkept old listed file is deleted; gc_deletes_only_old_unkept. The normaliser as found is refuted in "
                "Lean (norm_agrees_refuted) and was replayed on the real collector, then repaired. Correspondence: _normalize_path and "
                "_gc_prefix vs the model; oracle: real histories at 12 location spellings (incl. d, data, m, metadata, symlink, S3 prefixes) "
                "with aged files and open transactions, deleted set vs independently computed reachability over ALL retained snapshots."
                " Marker naming (model Marker): queued_files_all_covered, separated_names_register_each, digest_markers_register_both (for any digest telling the paths apart), basename_markers_skip_second (witness), library_marker_names_unchanged; ties marker.name / marker.register against _marker_path_for and the markers a real append_files batch writes. Live transactions holding pre-built files (same base name in two partition directories) across collections."
                " spellings_name_one_file / raw_spelling_misses_listed_file (references compared by the file they name; tie gc.ref vs _referenced_path); transactions_do_not_share_markers (per-transaction salted digests), path_only_markers_are_shared (witness). Histories with non-canonical spellings of pre-built paths and with two live transactions holding one pre-built file.",
        "design_ref": "§6 C05",
        "note": "The collector's reachability walk and marker loading are exercised end to end here and modelled step-wise under C07/C06; "
                "the for-all-histories store invariant (history_wf) is not proved in Lean yet — covered by the history oracle.",
        "technique": "Lean 4 theorems on the path normaliser and delete decision (List Char) + correspondence + history oracle",
    },
    "C10": {
        "text": "Theorems (Lean, unbounded): parse_total — no pointer content (any code points, any length, invalid UTF-8) makes the hint parser "
                "raise; recover_highest_newest — the scan returns an existing metadata file of the highest version and, among those, of the "
                "newest mtime, for every listing; open_resolves_latest_partial — with the committed latest version on storage, no file of a "
                "version ≥ it, and the pointer missing/unparseable/dangling/current, opening resolves to it; never_reinit — 'no table' is "
                "answered only when a successful listing holds no metadata version. The unrestricted resolution statement is refuted in Lean "
                "(uncommitted higher version; stale pointer) and both witnesses are replayed on the real library as known findings. "
                "Correspondence: _parse_hint_content on a byte grammar, _recover_version_from_files and _current_version_info on stub storage."
                " Conditional pointer PUT answered precondition-failed (S3).",
        "design_ref": "§6 C10",
        "note": "Code points abstracted to classes measured with Python's own str methods; real-table histories are local-filesystem only.",
        "technique": "Lean 4 theorems over a code-point-class model of the parser and the recovery fold + correspondence on a byte grammar",
    },
    "C20": {
        "text": "Theorems (Lean, unbounded): range_reader_refines_file — for every seek/read program, object size and start position the "
                "S3 range reader yields the positions, delivered byte ranges and errors of an ordinary file; ranges_in_bounds — every ranged "
                "GET is non-empty and inside the object; retry_masks_transient / permanent_fast_fail / nonretryable_fast_fail / "
                "retry_exhausted / attempts_bounded for every failure sequence and retry budget; listing_agrees — S3 listing under dir+'/' "
                "equals the local directory listing for every file set (string-level proof on '/'-joined keys). Correspondence: S3RangeFile, "
                "retry_with_backoff and list_files vs the model on enumerated programs / attempt sequences / twin-backend traces each run."
                " Uploads broken after the body went out; IncompleteRead / read-timeout / connection-closed body failures; connection-level exceptions without an HTTP answer."
                " Page requests of token-driven listing loops.",
        "design_ref": "§6 C20",
        "note": "S3 is replaced by harness/fakes3.py (strong consistency, atomic PUT, exact ranged GET = the assumed contract); "
                "CPython BufferedReader observed, not proved; directory existence of emptied local directories is outside the contract.",
        "technique": "Lean 4 refinement theorem (range reader vs file spec) + retry-loop theorems + listing theorem; twin-backend correspondence",
    },
    "C12": {
        "text": "Theorems (Lean, unbounded): build_is_sql — the compute expression built per condition keeps a row iff the SQL 3VL reference is "
                "TRUE, for every operator, literal, value set (NULLs included) and row value (NULL/NaN/value); conj_is_sql for any number of "
                "conditions; apis_agree_batches/_records/_nochecksum — any batch size, record iteration and the unverified path return what scan "
                "returns; parse_table_correct on the operator tables regenerated from the source each run; compile_* — malformed shapes raise. "
                "The models are compared with the real _build_condition/parse_filter_dict on exhaustive small domains every run, and every "
                "scan API × option × projection is compared with an independent SQL evaluator on real tables."
                " Tables in one process alternate their field-id numbering (same schema id, names, order)."
                " Every third table holds pre-built files with equal base names; not_in sets holding a file's min and max.",
        "design_ref": "§6 C12",
        "note": "Values abstracted to NULL/NaN/Int; pyarrow compute kernels observed each run, not proved; NaN inside value sets unspecified; "
                "NULLs in value sets dropped (library contract). Cross-type literals that every API rejects are treated as malformed.",
        "technique": "Lean 4 theorems (build_is_sql, apis_agree) + model/implementation correspondence + generated-table theorem",
    },
    "C13": {
        "text": "Theorem prune_sound (Lean, unbounded: every column content incl. NULL/NaN, operator, literal, value set): a file skipped "
                "by its computed bounds holds no SQL-TRUE row; codec_roundtrip for the typed bound encoding; inWalk_eq for the lazy any(). "
                "The model of _compute_column_bounds/_file_may_match/_encode_bound is compared with the real functions on an exhaustive "
                "small domain every run, and real multi-file tables are scanned with and without pruning."
                " Float32 columns: bounds describe the STORED value (0.1f, 0.7f, 2^24+1) not the Python float handed in."
                " A binary column between bounded ones; strings whose deciding character is outside the BMP.",
        "design_ref": "§6 C13",
        "note": "Values abstracted to NULL/NaN/Int (order-isomorphic domains); pyarrow min/max and is_in semantics observed, not proved. "
                "Cross-type literals (float32 narrowing) are outside the model and covered by the end-to-end oracle only.",
        "technique": "Lean 4 theorem (prune_sound) + exhaustive model/implementation correspondence",
    },
}

PENDING_REASON = "check not built yet (work in progress this session); property is applicable and will be claimed once its model, theorems and correspondence exist"
