"""Small shared helpers: paths, scratch dirs, PRNG, percent-encoding for the line protocol."""
import atexit
import os
import random
import shutil
import tempfile
import urllib.parse

VERIF = os.path.dirname(os.path.dirname(os.path.abspath(__file__)))
REPO = os.environ.get("DSV_REPO", "/repo")
LEAN_DIR = os.path.join(VERIF, "lean")
GUARD = "DATASHARD_VERIF"
os.environ.setdefault(GUARD, "1")

_scratch = []


def scratch_dir(prefix="dsv-"):
    d = tempfile.mkdtemp(prefix=prefix, dir=os.environ.get("DSV_TMP", "/tmp"))
    _scratch.append(d)
    return d


def _cleanup():
    for d in _scratch:
        shutil.rmtree(d, ignore_errors=True)


atexit.register(_cleanup)


def rng_for(seed, *salt):
    return random.Random(f"{seed}:" + ":".join(str(s) for s in salt))


def enc(s: str) -> str:
    """percent-encode a string into one whitespace-free token ('' -> '%')."""
    if s == "":
        return "%"
    return urllib.parse.quote(s, safe="")


def enc_bytes(b: bytes) -> str:
    if b == b"":
        return "%"
    return urllib.parse.quote_from_bytes(b, safe="")

import logging as _logging
_logging.disable(_logging.CRITICAL)      # the library logs every injected fault; the harness reports by itself


def dec(tok: str) -> str:
    """inverse of enc (and of the driver's encStr)"""
    return "" if tok == "%" else urllib.parse.unquote(tok)
