"""Abstraction of a scheduled run's event log into the steps of the OCC transition system (DSV/Model/Occ.lean).

Significant events per actor: the last pointer read before taking the lock (base), lock acquisition, the first pointer
read under the lock (validation), the ETag read (CAS), the metadata-file write, the fencing check, the pointer write,
the lock release.  Everything else (existence probes, re-reads of immutable files, manifest traffic) is insignificant.
"""
import json


class Abstractor:
    def __init__(self, initial_meta_name, initial_md):
        self.fid = {initial_meta_name: 0}
        self.content = {0: initial_md}

    def name_of_hint(self, raw):
        try:
            return raw.decode("utf-8").strip()
        except Exception:       # noqa: BLE001
            return None

    def abstract(self, events, cas):
        """events: list of (actor, kind, data) in global order. Returns list of step tokens for `occ.trace`."""
        per = {}
        # file identities in GLOBAL order of the metadata-file writes (the model numbers them the same way)
        for (a, kind, d) in events:
            if a is not None and kind == "storage" and d["cls"] == "meta" and d["op"] == "write_file" and "result" in d:
                name = d["path"].rsplit("/", 1)[-1]
                if name not in self.fid:
                    self.fid[name] = len(self.fid)
                    self.content[self.fid[name]] = json.loads(d["args"][0].decode("utf-8"))
        # per-actor pass over its own significant events
        for i, (a, kind, d) in enumerate(events):
            if a is None:
                continue
            per.setdefault(a, []).append((i, kind, d))
        out = {}      # global index -> token (or list of tokens)
        for a, evs in per.items():
            aid = a
            phase = "idle"
            last_hint_read = None       # (global idx, fid)
            last_clock = None
            base_fid = None
            pending_validate = None     # (global idx, fid)
            for j, (i, kind, d) in enumerate(evs):
                if kind == "clock":
                    last_clock = d
                    out.setdefault(i, []).append(("clock", d))
                    continue
                if kind == "lock":
                    if d["op"] == "try" and d["result"]:
                        if last_hint_read is not None:
                            out[last_hint_read[0]] = [f"{aid}:readBase:{last_hint_read[1]}"]
                            base_fid = last_hint_read[1]
                        out.setdefault(i, []).append(f"{aid}:acquire")
                        phase = "locked"
                        last_hint_read = None
                    elif d["op"] == "is_held" and phase == "wrote":
                        out.setdefault(i, []).append(f"{aid}:fence:{1 if d['result'] else 0}")
                        phase = "fenced" if d["result"] else "conflict"
                    elif d["op"] == "release" and phase != "idle":
                        if pending_validate is not None:
                            out.setdefault(pending_validate[0], []).append(f"{aid}:validate:{pending_validate[1]}:conf")
                            pending_validate = None
                        # retry iff the actor takes the lock again later
                        retry = any(k2 == "lock" and d2["op"] == "try" and d2["result"] for _i2, k2, d2 in evs[j + 1:])
                        out.setdefault(i, []).append(f"{aid}:release:{'retry' if retry else 'done'}")
                        phase = "idle"
                    continue
                if kind != "storage":
                    continue
                op, cls = d["op"], d["cls"]
                if cls == "hint" and op == "read_file" and "result" in d:
                    name = self.name_of_hint(d["result"])
                    fid = self.fid.get(name, -1)
                    if phase == "idle":
                        last_hint_read = (i, fid)
                    elif phase == "locked":
                        pending_validate = (i, fid)
                        phase = "validating"
                elif cls == "hint" and op == "read_file_with_etag" and phase == "locked" and "result" in d:
                    # repaired CAS path: ONE read gives the version validated against and the ETag
                    name = self.name_of_hint(d["result"][0])
                    pending_validate = (i, self.fid.get(name, -1))
                    phase = "validating"
                elif cls == "hint" and op == "read_file_with_etag" and phase == "validating":
                    out.setdefault(pending_validate[0], []).append(f"{aid}:validate:{pending_validate[1]}:ok")
                    pending_validate = None
                    out.setdefault(i, []).append(f"{aid}:etag")
                    phase = "validated"
                elif cls == "meta" and op == "write_file" and phase in ("validating", "validated") and "result" in d:
                    if pending_validate is not None:
                        out.setdefault(pending_validate[0], []).append(f"{aid}:validate:{pending_validate[1]}:ok")
                        pending_validate = None
                    name = d["path"].rsplit("/", 1)[-1]
                    fid = self.fid[name]
                    md = self.content[fid]
                    base = self.content.get(base_fid, {})
                    same = md["current_snapshot_id"] == base.get("current_snapshot_id")
                    out.setdefault(i, []).append(
                        f"{aid}:write:{fid}:{md['last_updated_ms']}:{'same' if same else 'new'}:{last_clock if last_clock is not None else 0}")
                    phase = "wrote"
                elif cls == "hint" and op in ("write_file", "write_file_cas") and phase == "fenced":
                    if "result" in d:
                        out.setdefault(i, []).append(f"{aid}:flip:ok")
                        phase = "flipped"
                    elif d.get("raise") == "CASConflictError":
                        out.setdefault(i, []).append(f"{aid}:flip:conf")
                        phase = "conflict"
                    else:
                        out.setdefault(i, []).append(f"{aid}:flip:fault")
        # second pass: emit in global order, turning clock readings into ticks
        toks = []
        now = None
        for i in sorted(out):
            for t in out[i]:
                if isinstance(t, tuple):
                    if now is None or t[1] > now:
                        toks.append(("now", t[1]))
                        now = t[1]
                else:
                    toks.append(t)
        return toks


def render(toks, start_now):
    """turn ('now', v) markers into tick:d steps relative to the model clock"""
    out, now = [], start_now
    for t in toks:
        if isinstance(t, tuple):
            if t[1] > now:
                out.append(f"tick:{t[1] - now}")
                now = t[1]
        else:
            out.append(t)
    return out
