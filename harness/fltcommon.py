"""Shared helpers for the filter properties (C12, C13): value encoding, small domains, implementation calls."""
import itertools
import math

NAN = float("nan")

# token <-> python value for the model's V (NULL, NaN, integer)
def tok(v):
    if v is None:
        return "N"
    if isinstance(v, float) and math.isnan(v):
        return "A"
    return str(int(v))


def toks(vs):
    return ",".join(tok(v) for v in vs) if vs else "-"


def untok(t):
    if t == "N":
        return None
    if t == "A":
        return NAN
    return float(int(t))


OPS = ["eq", "ne", "lt", "le", "gt", "ge", "in", "notin", "isnull", "notnull"]
OP_SPELL = {"eq": "==", "ne": "!=", "lt": "<", "le": "<=", "gt": ">", "ge": ">=", "in": "in", "notin": "not_in",
            "isnull": "is_null", "notnull": "is_not_null"}


def filter_op(name):
    from datashard.filters import FilterOp
    return {"eq": FilterOp.EQ, "ne": FilterOp.NE, "lt": FilterOp.LT, "le": FilterOp.LE, "gt": FilterOp.GT,
            "ge": FilterOp.GE, "in": FilterOp.IN, "notin": FilterOp.NOT_IN, "isnull": FilterOp.IS_NULL,
            "notnull": FilterOp.IS_NOT_NULL}[name]


def as_float(v):
    """model value -> float column value (None stays None)."""
    return None if v is None else float(v)


def multisets(domain, max_size):
    for n in range(0, max_size + 1):
        for c in itertools.combinations_with_replacement(domain, n):
            yield list(c)


def small_filters(lits, set_elems, max_set=2):
    """(op, lit, set) triples over a small literal domain."""
    for op in ("eq", "ne", "lt", "le", "gt", "ge"):
        for l in lits:
            yield (op, l, [])
    sets = [[]]
    for n in range(1, max_set + 1):
        sets += [list(c) for c in itertools.permutations(set_elems, n)]
    for op in ("in", "notin"):
        for s in sets:
            yield (op, None, s)
    yield ("isnull", None, [])
    yield ("notnull", None, [])


def ref_eval(op, lit, vset, x):
    """Independent reference evaluator: SQL three-valued logic on one column value.
    Returns True / False / None(unknown) — or 'unspecified' where DESIGN §7 leaves the answer open
    (NaN membership in an in/not_in value set)."""
    isnan = lambda v: isinstance(v, float) and math.isnan(v)
    if op == "isnull":
        return x is None
    if op == "notnull":
        return x is not None
    if op in ("in", "notin"):
        if x is None:
            return None
        vs = [v for v in vset if v is not None]        # NULLs in the set are dropped (documented contract)
        if any(isnan(v) for v in vs) and isnan(x):
            return "unspecified"
        hit = any((not isnan(v)) and (not isnan(x)) and v == x for v in vs)
        return hit if op == "in" else (not hit)
    if x is None or lit is None:
        return None
    if isnan(x) or isnan(lit):
        return op == "ne"
    return {"eq": x == lit, "ne": x != lit, "lt": x < lit, "le": x <= lit, "gt": x > lit, "ge": x >= lit}[op]
