"""./check CNN --tier quick|thorough [--replay FILE]   (DESIGN §2.3)

exit 0  property held on everything explored (KNOWN-FINDING lines allowed)
exit 1  VIOLATION property=<id> replay=<path> [no-failing-input-found]
exit 2  infrastructure error / timeout (no VIOLATION line)
"""
import argparse
import importlib
import json
import os
import sys
import time
import traceback

from . import driver, findings, leanproj
from .report import Report
from .util import VERIF, rng_for

TRUSTED_BASE = [
    "Lean 4.33.0 kernel (lake build; leanchecker in the thorough tier)",
    "axioms per theorem from `#print axioms`, required ⊆ {propext, Classical.choice, Quot.sound}; no native_decide / bv_decide / sorry / user axioms (grep enforced)",
    "hand-written models in lean/DSV/Model tied to /repo by the behavioural correspondence run in this check (harness/ + dsdriver)",
    "harness/gen_tables.py (AST translator of literal tables from /repo/src into DSV/Generated/Tables.lean)",
    "harness/gen_skeleton.py (AST translator of the call skeletons of the protocol-bearing functions of /repo/src into DSV/Generated/Skeleton.lean; the `source_*` theorems are statements about these generated lists)",
    "Lean compiler/runtime for the executable reading of the models (correspondence only)",
    "Python 3.12, pyarrow, fastavro, json as observed runtime components (contracts listed in DESIGN §4)",
]


class Ctx:
    def __init__(self, prop, tier, seed):
        self.prop = prop
        self.tier = tier
        self.seed = seed
        self.thorough = tier == "thorough"
        self.intensify = False
        self.t0 = time.time()

    def rng(self, *salt):
        return rng_for(self.seed, self.prop, *salt)

    def budget(self, quick, thorough):
        n = thorough if self.thorough else quick
        return n * 4 if self.intensify else n


def write_replay(prop, seed, kind, payload):
    d = os.path.join(VERIF, "replays")
    os.makedirs(d, exist_ok=True)
    n = 0
    while True:
        p = os.path.join(d, f"{prop}-{seed}-{n}.json")
        if not os.path.exists(p):
            break
        n += 1
    payload = dict(payload)
    payload.update({"property": prop, "kind": kind, "seed": seed,
                    "replay_cmd": f"./check {prop} --replay {os.path.relpath(p, VERIF)}"})
    with open(p, "w") as f:
        json.dump(payload, f, indent=1, default=str)
    return os.path.relpath(p, VERIF)


def write_evidence(ctx, mod, build, audit, rep, n_viol, wall):
    cov = {
        "obligations": audit["obligations"],
        "discharged": audit["discharged"],
        "checker_cmd": f"cd lean && lake build DSV.Props.{ctx.prop} && lake env lean <#print axioms of every theorem in DSV/Props/{ctx.prop}.lean>"
                       + (" && lake env leanchecker DSV.Props." + ctx.prop if ctx.thorough else ""),
        "trusted_base": TRUSTED_BASE + list(getattr(mod, "TRUSTED_EXTRA", [])),
        "theorems": audit["theorems"],
        "axioms": audit["axioms"],
        "evaluations": rep.evaluations,
        "distinct_nontrivial": rep.distinct_nontrivial,
        "rule": rep.rule,
        "samples": rep.samples or [{"note": "no sample recorded"}],
        "traces_validated_against_impl": rep.corr_cases,
        "disagreements_checked": len(rep.divergences),
        "distribution": dict(rep.distribution),
        "exhaustive": bool(rep.exhaustive),
        "lean_build_ok": build.ok,
        "lean_build_wall_s": round(build.wall_s, 2),
        "notes": rep.notes,
    }
    cov.update(rep.extra)
    ev = {
        "property_id": ctx.prop,
        "tier": ctx.tier,
        "seed": ctx.seed,
        "level": "proof",
        "coverage": cov,
        "assumptions": list(getattr(mod, "ASSUMPTIONS", [])) + rep.assumptions,
        "wall_s": round(wall, 2),
        "violations": n_viol,
    }
    d = os.path.join(VERIF, "evidence")
    os.makedirs(d, exist_ok=True)
    tmp = os.path.join(d, f".{ctx.prop}.json.tmp")
    with open(tmp, "w") as f:
        json.dump(ev, f, indent=1, default=str)
    os.replace(tmp, os.path.join(d, f"{ctx.prop}.json"))


def run_check(prop, tier, seed):
    ctx = Ctx(prop, tier, seed)
    mod = importlib.import_module(f"harness.checks.{prop.lower()}")
    targets = [f"DSV.Props.{prop}", "dsdriver"]
    build = leanproj.build(targets)
    if build.ok:
        audit = leanproj.audit(prop)
    else:
        try:
            names = leanproj.theorems_of(prop)
        except Exception:
            names = []
        audit = {"theorems": names, "axioms": {}, "obligations": max(1, len(names)), "discharged": 0,
                 "bad": {n: "build failed" for n in names}, "forbidden_tokens": [], "ok": False, "raw": build.log[-4000:]}
    if ctx.thorough and build.ok:
        import subprocess
        p = subprocess.run(["lake", "env", "leanchecker", f"DSV.Props.{prop}"], cwd=leanproj.LEAN_DIR,
                           capture_output=True, text=True)
        if p.returncode != 0:
            audit["ok"] = False
            audit["bad"]["leanchecker"] = (p.stdout + p.stderr)[-2000:]

    model_ok = driver.available() and build.ok
    rep = mod.run(ctx, model_ok)

    known = findings.open_signatures(prop)
    seen_known = {}
    unknown = []
    for v in rep.violations:
        if v["signature"] in known:
            seen_known.setdefault(v["signature"], v)
        else:
            unknown.append(v)

    tie_broken = []
    if build.tables_error:
        tie_broken.append({"obligation": "generated tables / skeletons (harness/gen_tables.py, harness/gen_skeleton.py)", "detail": build.tables_error})
    if not build.ok and not build.tables_error:
        tie_broken.append({"obligation": "lake build " + " ".join(build.failed_targets or targets), "detail": build.log[-3000:]})
    if build.ok and not audit["ok"]:
        tie_broken.append({"obligation": "axiom audit", "detail": {"bad": audit["bad"], "tokens": audit["forbidden_tokens"], "raw": audit.get("raw", "")}})
    if rep.divergences:
        tie_broken.append({"obligation": "correspondence " + rep.divergences[0]["where"], "detail": rep.divergences[:5]})

    if not unknown and tie_broken:
        # the tie is broken but no violation shown yet: intensified failing-input search on the implementation
        ctx.intensify = True
        rep2 = mod.run(ctx, model_ok)
        for v in rep2.violations:
            if v["signature"] in known:
                seen_known.setdefault(v["signature"], v)
            else:
                unknown.append(v)
        rep.evaluations += rep2.evaluations
        rep._nontrivial |= rep2._nontrivial
        rep.notes.append("intensified search ran because a proof obligation or the correspondence broke")

    status = 0
    lines = []
    for sig, v in seen_known.items():
        lines.append(f"KNOWN-FINDING: property={prop} {known[sig].get('what', v['what'])} [{sig}]")
    for sig in known:
        if sig not in seen_known:
            rep.notes.append(f"listed finding not reproduced in this run: {sig}")
    if unknown:
        v = unknown[0]
        path = write_replay(prop, seed, "impl-violation",
                            {"signature": v["signature"], "what": v["what"], "case": v["case"],
                             "other_violations": [u["signature"] for u in unknown[1:20]],
                             "tie_broken": [t["obligation"] for t in tie_broken]})
        lines.append(f"VIOLATION property={prop} replay={path}")
        status = 1
    elif tie_broken:
        path = write_replay(prop, seed, "proof-broken" if not rep.divergences else "correspondence-divergence",
                            {"no_longer_checks": tie_broken,
                             "note": "no failing input found on the implementation; the property is no longer shown to hold"})
        lines.append(f"VIOLATION property={prop} replay={path} no-failing-input-found")
        status = 1

    wall = time.time() - ctx.t0
    write_evidence(ctx, mod, build, audit, rep, len(unknown), wall)
    for ln in lines:
        print(ln)
    print(f"{prop} {tier} seed={seed}: theorems {audit['discharged']}/{audit['obligations']}, "
          f"correspondence {rep.corr_cases} cases / {len(rep.divergences)} divergences, "
          f"oracle {rep.evaluations} evaluations ({rep.distinct_nontrivial} distinct non-trivial), "
          f"{len(seen_known)} known finding(s), {len(unknown)} new violation(s), {wall:.1f}s")
    return status


def main(argv=None):
    ap = argparse.ArgumentParser()
    ap.add_argument("prop")
    ap.add_argument("--tier", default=os.environ.get("VERIF_TIER", "quick"), choices=["quick", "thorough"])
    ap.add_argument("--replay")
    a = ap.parse_args(argv)
    seed = int(os.environ.get("VERIF_SEED", "0") or 0)
    prop = a.prop.upper()
    try:
        if a.replay:
            mod = importlib.import_module(f"harness.checks.{prop.lower()}")
            with open(a.replay) as f:
                payload = json.load(f)
            ctx = Ctx(prop, a.tier, payload.get("seed", seed))
            if not hasattr(mod, "replay") or "case" not in payload:
                print(json.dumps(payload, indent=1)[:4000])
                print("replay: this file names a broken obligation; re-run the check to re-evaluate it")
                return 0
            ok, msg = mod.replay(ctx, payload["case"])
            print(msg)
            if not ok:
                print(f"VIOLATION property={prop} replay={a.replay}")
                return 1
            return 0
        return run_check(prop, a.tier, seed)
    except KeyboardInterrupt:
        raise
    except Exception:
        traceback.print_exc()
        print(f"{prop}: infrastructure error (exit 2)", file=sys.stderr)
        return 2


if __name__ == "__main__":
    sys.exit(main())
