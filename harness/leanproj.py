"""Lean side of a check run: regenerate tables, build, audit axioms, grep forbidden tokens."""
import fcntl
import os
import re
import subprocess
import time

from . import gen_skeleton, gen_tables
from .util import LEAN_DIR

ALLOWED_AXIOMS = {"propext", "Classical.choice", "Quot.sound"}
FORBIDDEN = re.compile(r"\b(sorry|admit|native_decide|bv_decide|implemented_by|unsafe)\b|^\s*axiom\s|maxHeartbeats\s+0\b", re.M)

_LOCK = os.path.join(LEAN_DIR, ".build.lock")


class BuildResult:
    def __init__(self):
        self.ok = True
        self.tables_error = None
        self.failed_targets = []     # module names that failed
        self.log = ""
        self.wall_s = 0.0


def _strip_comments(src):
    # remove /- ... -/ (nested) and -- line comments
    out = []
    i, depth, n = 0, 0, len(src)
    while i < n:
        if src.startswith("/-", i):
            depth += 1
            i += 2
        elif depth and src.startswith("-/", i):
            depth -= 1
            i += 2
        elif depth:
            i += 1
        elif src.startswith("--", i):
            while i < n and src[i] != "\n":
                i += 1
        else:
            out.append(src[i])
            i += 1
    return "".join(out)


def _closure(prop):
    """lean source files the property's theorem module transitively imports (inside the project) + the driver"""
    seen, todo = set(), [os.path.join(LEAN_DIR, "DSV", "Props", f"{prop}.lean"), os.path.join(LEAN_DIR, "Driver.lean")]
    while todo:
        p = todo.pop()
        if p in seen or not os.path.exists(p):
            continue
        seen.add(p)
        with open(p, encoding="utf-8") as f:
            for line in f:
                m = re.match(r"\s*import\s+(DSV(?:\.\w+)+)", line)
                if m:
                    todo.append(os.path.join(LEAN_DIR, *m.group(1).split(".")) + ".lean")
    return sorted(seen)


def forbidden_tokens(prop=None):
    """grep over the lean sources a property depends on (comments and string literals stripped)."""
    hits = []
    if prop is not None:
        files = _closure(prop)
    else:
        files = []
        for root, _dirs, fs in os.walk(LEAN_DIR):
            if ".lake" in root:
                continue
            files += [os.path.join(root, fn) for fn in fs if fn.endswith(".lean")]
    for p in files:
        with open(p, encoding="utf-8") as f:
            src = _strip_comments(f.read())
        src = re.sub(r'"(\\.|[^"\\])*"', '""', src)
        for m in FORBIDDEN.finditer(src):
            hits.append((os.path.relpath(p, LEAN_DIR), m.group(0).strip()))
    return hits


def build(targets):
    """`lake build` the given targets (module names or exe) under a lock. Never raises on build failure."""
    res = BuildResult()
    t0 = time.time()
    os.makedirs(LEAN_DIR, exist_ok=True)
    with open(_LOCK, "w") as lk:
        fcntl.flock(lk, fcntl.LOCK_EX)
        try:
            gen_tables.regenerate()
            gen_skeleton.regenerate()
        except Exception as e:  # TablesError or unexpected AST shapes
            res.tables_error = f"{type(e).__name__}: {e}"
            res.ok = False
        p = subprocess.run(["lake", "build", *targets], cwd=LEAN_DIR, capture_output=True, text=True)
        res.log = p.stdout + p.stderr
        if p.returncode != 0:
            res.ok = False
            for m in re.finditer(r"^- (\S+)$", res.log, re.M):
                res.failed_targets.append(m.group(1))
    res.wall_s = time.time() - t0
    return res


def theorems_of(prop):
    """(qualified name, kind) for every theorem declared in DSV/Props/<prop>.lean."""
    p = os.path.join(LEAN_DIR, "DSV", "Props", f"{prop}.lean")
    with open(p, encoding="utf-8") as f:
        src = _strip_comments(f.read())
    names = []
    ns = []
    for line in src.split("\n"):
        m = re.match(r"\s*namespace\s+(\S+)", line)
        if m:
            ns.append(m.group(1))
            continue
        m = re.match(r"\s*end\s+(\S+)", line)
        if m and ns and ns[-1] == m.group(1):
            ns.pop()
            continue
        m = re.match(r"\s*(?:private\s+|protected\s+)?theorem\s+([^\s:({\[]+)", line)
        if m:
            names.append(".".join(ns + [m.group(1)]))
    return names


def audit(prop):
    """Run `#print axioms` on every property theorem. Returns dict with obligations / discharged / details."""
    names = theorems_of(prop)
    src = f"import DSV.Props.{prop}\n" + "".join(f"#print axioms {n}\n" for n in names)
    tmp = os.path.join(LEAN_DIR, f".audit_{prop}_{os.getpid()}.lean")
    with open(tmp, "w") as f:
        f.write(src)
    try:
        p = subprocess.run(["lake", "env", "lean", tmp], cwd=LEAN_DIR, capture_output=True, text=True)
    finally:
        os.unlink(tmp)
    out = p.stdout + p.stderr
    details = {}
    # outputs look like: 'X' depends on axioms: [a, b]   |   'X' does not depend on any axioms
    for m in re.finditer(r"'([^']+)' depends on axioms: \[([^\]]*)\]", out, re.S):
        details[m.group(1)] = [a.strip() for a in m.group(2).replace("\n", " ").split(",") if a.strip()]
    for m in re.finditer(r"'([^']+)' does not depend on any axioms", out):
        details[m.group(1)] = []
    bad = {}
    for n in names:
        if n not in details:
            bad[n] = "not checked (elaboration failed)"
        else:
            extra = [a for a in details[n] if a not in ALLOWED_AXIOMS]
            if extra:
                bad[n] = "axioms outside the allowed set: " + ", ".join(extra)
    tokens = forbidden_tokens(prop)
    return {
        "theorems": names,
        "axioms": details,
        "obligations": len(names),
        "discharged": len([n for n in names if n not in bad]),
        "bad": bad,
        "forbidden_tokens": tokens,
        "ok": not bad and not tokens and p.returncode == 0 and len(names) > 0,
        "raw": out[-4000:] if p.returncode != 0 else "",
    }
