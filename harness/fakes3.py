"""In-memory S3 behind a genuinely constructed S3StorageBackend (DESIGN §2.2, Appendix B.4).

Strongly consistent; PUT atomic; If-Match / If-None-Match honoured; ETag changes on every write;
LastModified from a controllable clock.  Raises real botocore ClientError with real error codes.
Every request passes `self.hook(phase, op, key, kwargs)` (phase 'before' | 'after') so that a scheduler or
fault plan can delay it, fail it before or after its effect, or count it.
"""
import datetime as _dt
import io
import threading

from botocore.exceptions import ClientError


def client_error(code, op, status=None, msg=""):
    status = status or {"NoSuchKey": 404, "404": 404, "PreconditionFailed": 412, "InvalidRange": 416,
                        "AccessDenied": 403, "SlowDown": 503, "InternalError": 500, "RequestTimeout": 400}.get(code, 400)
    return ClientError({"Error": {"Code": code, "Message": msg or code}, "ResponseMetadata": {"HTTPStatusCode": status}}, op)


class _Body:
    def __init__(self, data, s3=None, key=None):
        self._b = io.BytesIO(data)
        self._s3, self._key = s3, key

    def read(self, n=None):
        if self._s3 is not None:
            self._s3._h("before", "body-read", self._key, {})       # the download of the body can fail after the request succeeded
        return self._b.read() if n is None else self._b.read(n)

    def close(self):
        pass


class _Obj:
    __slots__ = ("data", "etag", "mtime")

    def __init__(self, data, etag, mtime):
        self.data, self.etag, self.mtime = data, etag, mtime


class _Paginator:
    def __init__(self, s3):
        self.s3 = s3

    def paginate(self, Bucket, Prefix="", **kw):
        keys = self.s3._list(Bucket, Prefix)
        page = self.s3.page_size
        if not keys:
            yield {"KeyCount": 0}
            return
        for i in range(0, len(keys), page):
            self.s3._h("before", "list-page", Prefix, {"index": i // page})
            yield {"Contents": [{"Key": k, "Size": len(self.s3.objects[k].data)} for k in keys[i:i + page]], "KeyCount": len(keys[i:i + page])}


class FakeS3:
    def __init__(self, clock=None, page_size=2):
        self.objects = {}
        self.counter = 0
        self.lock = threading.RLock()
        self.clock = clock or (lambda: _dt.datetime.now(_dt.timezone.utc))
        self.hook = None          # callable(phase, op, key, kwargs) -> may raise
        self.log = []             # (op, key, extra)
        self.page_size = page_size

    # ---- helpers
    def _h(self, phase, op, key, kw):
        if self.hook is not None:
            self.hook(phase, op, key, kw)

    def _list(self, bucket, prefix):
        with self.lock:
            return sorted(k for k in self.objects if k.startswith(prefix))

    def _put(self, key, data):
        self.counter += 1
        o = _Obj(bytes(data), f'"e{self.counter}"', self.clock())
        self.objects[key] = o
        return o

    # ---- boto3 client subset
    def put_object(self, Bucket, Key, Body=b"", IfNoneMatch=None, IfMatch=None, **kw):
        self._h("before", "put", Key, {"IfNoneMatch": IfNoneMatch, "IfMatch": IfMatch})
        with self.lock:
            cur = self.objects.get(Key)
            if IfNoneMatch == "*" and cur is not None:
                self.log.append(("put-412", Key, None))
                raise client_error("PreconditionFailed", "PutObject")
            if IfMatch is not None:
                if cur is None:
                    self.log.append(("put-404", Key, None))
                    raise client_error("NoSuchKey", "PutObject")
                if cur.etag != IfMatch:
                    self.log.append(("put-412", Key, None))
                    raise client_error("PreconditionFailed", "PutObject")
            if hasattr(Body, "read"):
                Body = Body.read()          # a stream handed to the client is CONSUMED by the upload, whether or not it then succeeds
            self._h("before", "put-body-sent", Key, {"n": len(Body)})        # the upload can break after the body went out
            o = self._put(Key, Body)
            self.log.append(("put", Key, "cas" if (IfMatch or IfNoneMatch) else None))
        self._h("after", "put", Key, {})
        return {"ETag": o.etag}

    def get_object(self, Bucket, Key, Range=None, **kw):
        self._h("before", "get", Key, {"Range": Range})
        with self.lock:
            o = self.objects.get(Key)
            if o is None:
                self.log.append(("get-404", Key, Range))
                raise client_error("NoSuchKey", "GetObject")
            data = o.data
            if Range is not None:
                assert Range.startswith("bytes=")
                a, b = Range[6:].split("-")
                a, b = int(a), int(b)
                if b < a:
                    pass        # a syntactically invalid range (last < first) is IGNORED by S3: the whole object comes back
                elif a >= len(data):
                    self.log.append(("get-416", Key, Range))
                    raise client_error("InvalidRange", "GetObject")
                else:
                    data = data[a:b + 1]
            self.log.append(("get", Key, Range))
            res = {"Body": _Body(data, self, Key), "ETag": o.etag, "LastModified": o.mtime, "ContentLength": len(data)}
        self._h("after", "get", Key, {})
        return res

    def head_object(self, Bucket, Key, **kw):
        self._h("before", "head", Key, {})
        with self.lock:
            o = self.objects.get(Key)
            if o is None:
                self.log.append(("head-404", Key, None))
                raise client_error("404", "HeadObject")
            self.log.append(("head", Key, None))
            res = {"ContentLength": len(o.data), "ETag": o.etag, "LastModified": o.mtime}
        self._h("after", "head", Key, {})
        return res

    def delete_object(self, Bucket, Key, **kw):
        self._h("before", "delete", Key, {})
        with self.lock:
            self.objects.pop(Key, None)
            self.log.append(("delete", Key, None))
        self._h("after", "delete", Key, {})
        return {}

    def list_objects_v2(self, Bucket, Prefix="", MaxKeys=1000, ContinuationToken=None, **kw):
        """pages like S3 does (a small page size here, so that tiny tables already need more than one page): IsTruncated +
        NextContinuationToken on every page but the last; the request parameter is ContinuationToken"""
        self._h("before", "list", Prefix, {})
        allkeys = self._list(Bucket, Prefix)
        start = 0
        if ContinuationToken is not None:
            start = int(str(ContinuationToken).split(":")[1])
        n = max(1, min(MaxKeys, self.page_size))
        self._h("before", "list-page", Prefix, {"index": start // n})        # a page request of a token-driven listing loop
        keys = allkeys[start:start + n]
        self.log.append(("list", Prefix, None))
        self._h("after", "list", Prefix, {})
        if not keys:
            return {"KeyCount": 0, "IsTruncated": False}
        out = {"Contents": [{"Key": k, "Size": len(self.objects[k].data)} for k in keys if k in self.objects], "KeyCount": len(keys),
               "IsTruncated": start + n < len(allkeys)}
        if out["IsTruncated"]:
            out["NextContinuationToken"] = f"tok:{start + n}"
        return out

    def get_paginator(self, name):
        assert name == "list_objects_v2"
        s3 = self

        class P(_Paginator):
            def paginate(self, Bucket, Prefix="", **kw):
                s3._h("before", "list", Prefix, {})
                s3.log.append(("list", Prefix, None))
                yield from _Paginator.paginate(self, Bucket, Prefix, **kw)
                s3._h("after", "list", Prefix, {})
        return P(self)


def make_backend(prefix="tbl", cas=True, fake=None):
    """A real S3StorageBackend whose boto client is the fake."""
    from datashard.storage_backend import S3StorageBackend
    import logging
    logging.getLogger("datashard").setLevel(logging.CRITICAL)
    b = S3StorageBackend(bucket="bkt", endpoint_url="https://example.invalid", access_key="k", secret_key="s",
                         prefix=prefix, use_conditional_writes=cas)
    b.s3 = fake or FakeS3()
    return b


class NoSleep:
    """Context manager: rebind time.sleep in datashard modules to a no-op (retry back-off, lock polling)."""
    MODS = ("datashard.s3_consistency", "datashard.lock_provider", "datashard.file_lock")

    def __init__(self, sleeper=None):
        self.sleeper = sleeper or (lambda s: None)
        self.saved = []

    def __enter__(self):
        import importlib
        import types
        for m in self.MODS:
            mod = importlib.import_module(m)
            t = mod.time
            fake = types.SimpleNamespace(**{k: getattr(t, k) for k in ("time", "monotonic")})
            fake.sleep = self.sleeper
            self.saved.append((mod, t))
            mod.time = fake
        return self

    def __exit__(self, *a):
        for mod, t in self.saved:
            mod.time = t
        self.saved = []


class S3Env:
    """Make `create_table` / `load_table` run on a FakeS3: patches the backend factory and substitutes the one piece
    that needs a network (pyarrow's own S3 client for data-file writes) by a writer that produces the same parquet bytes
    with pyarrow and stores them through the backend (DESIGN §4: modelled, not verified)."""

    def __init__(self, cas=True, fake=None, env_prefix=""):
        self.cas = cas
        self.fake = fake or FakeS3()
        self.env_prefix = env_prefix
        self.saved = []
        self.backends = []

    def backend_for(self, table_path):
        tp = table_path.strip("/")
        full = f"{self.env_prefix.rstrip('/')}/{tp}" if self.env_prefix and tp else (self.env_prefix.rstrip("/") or tp)
        b = make_backend(full, self.cas, self.fake)
        self.backends.append(b)
        return b

    def __enter__(self):
        import datashard.data_operations as dops
        import datashard.storage_backend as sb
        env = self
        self.saved.append((sb, "create_storage_backend", sb.create_storage_backend))
        sb.create_storage_backend = lambda table_path: env.backend_for(table_path)
        DFM = dops.DataFileManager
        self.saved.append((DFM, "_get_arrow_filesystem", DFM._get_arrow_filesystem))
        DFM._get_arrow_filesystem = lambda self_: None
        orig_write = DFM.write_data_file
        self.saved.append((DFM, "write_data_file", orig_write))

        def write_data_file(self_, file_path, records, iceberg_schema, file_format=dops.FileFormat.PARQUET, partition_values=None):
            if not isinstance(self_.storage, sb.S3StorageBackend):
                return orig_write(self_, file_path, records, iceberg_schema, file_format, partition_values)
            import io as _io
            import pyarrow as pa
            import pyarrow.parquet as pq
            if records:
                self_.validate_records_strict(records, iceberg_schema)
            arrow_schema = self_.create_arrow_schema(iceberg_schema)
            self_._get_arrow_path(file_path)
            lower = upper = None
            n = 0
            buf = _io.BytesIO()
            w = pq.ParquetWriter(buf, arrow_schema, compression="lz4")
            if records:
                table = pa.Table.from_pylist(records, schema=arrow_schema)
                lower, upper = self_._compute_column_bounds(table, iceberg_schema)
                w.write_table(table)
                n = table.num_rows
            w.close()
            data = buf.getvalue()
            clean = file_path.lstrip("/")
            self_.storage.write_file(clean, data)
            from datashard.integrity import IntegrityChecker
            return dops.DataFile(file_path=file_path, file_format=file_format, partition_values=partition_values or {},
                                 record_count=n, file_size_in_bytes=len(data), lower_bounds=lower, upper_bounds=upper,
                                 checksum=IntegrityChecker.compute_checksum(data))
        DFM.write_data_file = write_data_file
        return self

    def __exit__(self, *a):
        for obj, name, val in reversed(self.saved):
            setattr(obj, name, val)
        self.saved = []
