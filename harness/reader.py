"""Independent reader of a table directory (DESIGN §2.2): json + fastavro + pyarrow only, no datashard code.

It is the oracle for "what the table contains".  Works on a local directory or on a dict-like object store
(`get(path) -> bytes | None`, `list() -> iterable of table-relative paths`).
"""
import io
import json
import math
import os
import re

import fastavro

META_RE = re.compile(r"^v(\d+)(?:-[0-9a-f]{8})?\.metadata\.json$")
HINT = "metadata.version-hint.text"


class Broken(Exception):
    """the table cannot be read consistently (missing / unparseable file)"""


class DirStore:
    def __init__(self, root):
        self.root = root

    def get(self, rel):
        p = os.path.join(self.root, rel.lstrip("/"))
        try:
            with open(p, "rb") as f:
                return f.read()
        except (FileNotFoundError, IsADirectoryError, NotADirectoryError):
            return None

    def list(self):
        out = []
        for r, _d, fs in os.walk(self.root):
            for f in fs:
                out.append(os.path.relpath(os.path.join(r, f), self.root).replace(os.sep, "/"))
        return sorted(out)

    def mtime(self, rel):
        return os.path.getmtime(os.path.join(self.root, rel))


class S3Store:
    def __init__(self, fake, prefix):
        self.fake, self.prefix = fake, prefix.rstrip("/")

    def _k(self, rel):
        rel = rel.lstrip("/")
        return f"{self.prefix}/{rel}" if self.prefix else rel

    def get(self, rel):
        o = self.fake.objects.get(self._k(rel))
        return None if o is None else o.data

    def list(self):
        p = self.prefix + "/" if self.prefix else ""
        return sorted(k[len(p):] for k in self.fake.objects if k.startswith(p))

    def mtime(self, rel):
        return self.fake.objects[self._k(rel)].mtime.timestamp()


def as_store(x):
    return DirStore(x) if isinstance(x, str) else x


def metadata_files(store):
    """{version: [names]} of files directly in metadata/ matching the naming scheme"""
    out = {}
    for rel in store.list():
        if rel.startswith("metadata/") and "/" not in rel[len("metadata/"):]:
            m = META_RE.match(rel[len("metadata/"):])
            if m:
                out.setdefault(int(m.group(1)), []).append(rel[len("metadata/"):])
    return out


def pointer(store):
    """(version, filename) named by the hint if it parses in the CURRENT or legacy form, else None (no recovery here)"""
    raw = store.get(HINT)
    if raw is None:
        return None
    try:
        text = raw.decode("utf-8").strip()
    except UnicodeDecodeError:
        return None
    m = META_RE.match(text)
    if m and text.isascii():
        return int(m.group(1)), text
    if text.isascii() and text.isdigit():
        return int(text), f"v{text}.metadata.json"
    return None


def read_metadata(store, name):
    raw = store.get("metadata/" + name)
    if raw is None:
        raise Broken(f"metadata file {name} missing")
    try:
        return json.loads(raw.decode("utf-8"))
    except Exception as e:      # noqa: BLE001
        raise Broken(f"metadata file {name} unparseable: {e}") from e


def _avro(store, rel):
    raw = store.get(rel)
    if raw is None:
        raise Broken(f"{rel} missing")
    try:
        return list(fastavro.reader(io.BytesIO(raw)))
    except Exception as e:      # noqa: BLE001
        raise Broken(f"{rel} unparseable: {e}") from e


def snapshot_files(store, snap):
    """[(data path, manifest entry dict)] of one snapshot, in manifest order; raises Broken"""
    ml = snap["manifest_list"].lstrip("/")
    out = []
    manifests = []
    for rec in _avro(store, ml):
        mp = rec["manifest_path"].lstrip("/")
        manifests.append(mp)
        for e in _avro(store, mp):
            out.append((e["data_file"]["file_path"].lstrip("/"), e, mp))
    return ml, manifests, out


def read_rows(store, rel):
    import pyarrow.parquet as pq
    raw = store.get(rel)
    if raw is None:
        raise Broken(f"data file {rel} missing")
    try:
        return pq.read_table(io.BytesIO(raw)).to_pylist()
    except Exception as e:      # noqa: BLE001
        raise Broken(f"data file {rel} unparseable: {e}") from e


def rowkey(r):
    def k(v):
        if isinstance(v, float) and math.isnan(v):
            return "nan"
        return repr(v)
    return json.dumps({c: k(v) for c, v in r.items()}, sort_keys=True)


def snapshot_content(store, snap):
    ml, manifests, files = snapshot_files(store, snap)
    seen, rows, paths = set(), [], []
    for p, _e, _m in files:
        if p in seen:
            continue
        seen.add(p)
        paths.append(p)
        rows += read_rows(store, p)
    return {"mlist": ml, "manifests": manifests, "files": paths, "rows": sorted(rowkey(r) for r in rows)}


def view(x, name=None):
    """The table as named by the pointer (or by metadata file `name`): uuid, snapshots with content, current rows."""
    store = as_store(x)
    if name is None:
        p = pointer(store)
        if p is None:
            raise Broken("pointer missing or unparseable")
        name = p[1]
    md = read_metadata(store, name)
    snaps = []
    for s in md["snapshots"]:
        c = snapshot_content(store, s)
        snaps.append({"id": s["snapshot_id"], "parent": s.get("parent_snapshot_id"), "seq": s.get("sequence_number"),
                      "ts": s["timestamp_ms"], **c})
    cur = md["current_snapshot_id"]
    cur_rows = None
    if cur in (None, -1):
        cur_rows = []
    else:
        for s in snaps:
            if s["id"] == cur:
                cur_rows = s["rows"]
        if cur_rows is None:
            raise Broken(f"current snapshot {cur} not among snapshots")
    return {"name": name, "uuid": md["table_uuid"], "cur": cur, "snaps": snaps, "rows": cur_rows, "md": md}


def reachable(x, name=None):
    """all table-relative paths reachable from the given (or pointed-to) metadata version"""
    v = view(x, name)
    out = set()
    for s in v["snaps"]:
        out.add(s["mlist"])
        out.update(s["manifests"])
        out.update(s["files"])
    return out
