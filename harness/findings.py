"""known_findings.json: read-only at run time."""
import json
import os

from .util import VERIF

PATH = os.path.join(VERIF, "known_findings.json")


def load():
    try:
        with open(PATH) as f:
            return json.load(f)
    except FileNotFoundError:
        return []


def open_signatures(prop):
    return {e["signature"]: e for e in load() if e.get("property") == prop and e.get("status") == "open"}
