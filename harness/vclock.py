"""Virtual clock: rebinds the `datetime` name inside datashard modules (harness process only)."""
import datetime as _dt
import importlib

MODS = ["datashard.metadata_manager", "datashard.snapshot_manager", "datashard.file_manager", "datashard.data_structures"]


class VClock:
    """modes: scripted (explicit .now_ms), coarse, frozen are all just how the caller advances `now_ms`."""

    def __init__(self, start_ms=1_767_225_600_000):
        self.now_ms = start_ms
        self.auto_step_ms = 0        # advance after every now() call
        self.saved = []
        self.on_now = None           # optional callback(ms) — the scheduler records which actor read the clock
        clock = self

        class _DT(_dt.datetime):
            @classmethod
            def now(cls, tz=None):
                ms = clock.now_ms
                clock.now_ms += clock.auto_step_ms
                if clock.on_now is not None:
                    clock.on_now(ms)
                base = _dt.datetime.fromtimestamp(ms / 1000.0, tz)
                # keep exact milliseconds: int(timestamp()*1000) must give back ms
                return cls.fromtimestamp(ms / 1000.0 + 0.0004, tz) if int(base.timestamp() * 1000) != ms else cls.fromtimestamp(ms / 1000.0, tz)
        self.DT = _DT

    def __enter__(self):
        import sys
        import types
        for m in MODS:
            importlib.import_module(m)
        # every loaded datashard module that binds the name `datetime` (the class, or the module) reads THIS clock — not only the
        # modules that do so today
        for name, mod in sorted(sys.modules.items()):
            if not (name == "datashard" or name.startswith("datashard.")) or mod is None:
                continue
            cur = mod.__dict__.get("datetime")
            if cur is _dt.datetime:
                self.saved.append((mod, cur))
                mod.datetime = self.DT
            elif cur is _dt:
                shim = types.SimpleNamespace(**{k: getattr(_dt, k) for k in dir(_dt) if not k.startswith("__")})
                shim.datetime = self.DT
                self.saved.append((mod, cur))
                mod.datetime = shim
        return self

    def __exit__(self, *a):
        for mod, orig in self.saved:
            mod.datetime = orig
        self.saved = []
